"""Slab pool rules: L1-L4 (C05), N (C04, C02), E/provenance (C01-C03), poison typestate (C03)."""
from .ir import path, canon, std_unwrap, AnalysisBroken
from . import flow
from . import rules_atomic as RA
from .rules_guard import write_of
from .rules_lock import LockAnalysis, reach_summary, acquire_summary, call_targets, GUARD_CLASSES, guard_ctor_state, TOP

POOL = "frg::slab_pool"


def pool_fns(unit, inst=None):
    out = []
    for f in unit.functions:
        oc = f.owner_cls or ""
        if f.uq.startswith(POOL + "::") or oc.startswith(POOL):
            if inst is None or (f.qn.startswith(inst + "::")):
                out.append(f)
    return out


def pool_instantiations(unit):
    recs = unit.record(POOL)
    if not recs:
        raise AnalysisBroken("anchor vanished: %s not instantiated" % POOL)
    return [r["qn"] for r in recs]


def policy_classes(unit):
    """Witness policy classes = template arguments the pool is instantiated with: every class
    that is the static type of the pool's policy reference field."""
    out = set()
    for r in unit.record(POOL):
        for f in r["fields"]:
            t = f["t"]
            if t.endswith("&") and f.get("rt"):
                out.add(f["rt"])
    if not out:
        raise AnalysisBroken("anchor vanished: slab_pool has no policy reference field")
    return out


def is_policy_call(n, pol, names):
    return n.kind == "CXXMemberCallExpr" and n.callee is not None and n.callee.get("cls") in pol \
        and n.callee["n"] in names


def ordinal_names(fn, nodes, label):
    """Stable instance names for call sites: function + callee + ordinal in source order."""
    nodes = sorted(nodes, key=lambda n: _lockey(n.loc))
    return {n.id: "%s -> %s #%d" % (fn.uq, label(n), i + 1) for i, n in enumerate(nodes)}


def _lockey(loc):
    p = loc.rsplit(":", 2)
    try:
        return (p[0], int(p[1]), int(p[2]))
    except Exception:
        return (loc, 0, 0)


def short(p):
    return ".".join(p) if p else "?"


# ------------------------------------------------------------------ C05

L2_TABLE = {
    # (record, field): (mode, protector)
    #   mode: "all" accesses or "write" only
    #   protector: ("sibling", name) = mutex field of the same object;
    #              ("any", name) = some mutex whose path ends in name;
    #              ("abs", path) = that exact path
    ("frg::slab_pool::bucket", "head_slb"): ("all", ("sibling", "bucket_mutex"),
                                             "slab.hpp: bucket state is only touched with the bucket locked"),
    ("frg::slab_pool::bucket", "partial_tree"): ("all", ("sibling", "bucket_mutex"),
                                                 "slab.hpp: partial tree updates under the bucket mutex"),
    ("frg::slab_pool::slab_frame", "available"): ("all", ("any", "bucket_mutex"),
                                                  "free list of a published slab belongs to its bucket"),
    ("frg::slab_pool::slab_frame", "num_reserved"): ("all", ("any", "bucket_mutex"),
                                                     "reservation count of a published slab belongs to its bucket"),
    ("frg::slab_pool", "_usedPages"): ("all", ("abs", ("this", "_tree_mutex")),
                                       "page accounting is read and updated under the tree mutex (a plain size_t: an unlocked "
                                       "read races with the updates)"),
    ("frg::slab_pool", "_frame_tree"): ("all", ("abs", ("this", "_tree_mutex")),
                                        "frame tree (FRG_SLAB_TRACK_REGIONS) under the tree mutex"),
}
FRESH_SOURCES = {"frg::slab_pool::_construct_slab", "frg::slab_pool::_construct_large"}


def is_write_access(fn, me):
    """MemberExpr me is the target of an assignment / increment."""
    p = fn.parent(me)
    while p is not None and p.kind in ("ParenExpr",):
        me, p = p, fn.parent(p)
    if p is None:
        return False
    if p.kind in ("BinaryOperator", "CompoundAssignOperator") and p.op.endswith("=") and p.op not in ("==", "!=", "<=", ">="):
        return p.children[0].id == me.id
    if p.kind == "UnaryOperator" and p.op in ("++", "--"):
        return True
    return False


def check_C05(ctx, unit, config=""):
    pol = policy_classes(unit)
    ctx.rule("L1.policy-unlocked", "every call that reaches Policy::map/unmap is made with a definitely empty lockset", 6)
    ctx.rule("L2.protected-field", "each access to a lock-protected pool field happens with its mutex definitely held "
             "(exception: an object still unpublished in this activation)", 20)
    ctx.rule("L5.update-in-one-section", "a protected pool field is never assigned a value computed from the result of a member that "
             "takes the protecting mutex itself (read-modify-write split over two critical sections loses updates); the counters are "
             "updated by compound assignment under one acquisition", 1)
    ctx.rule("L3.guards-only", "pool code never calls a mutex method directly: locks are taken only through RAII guards "
             "with automatic storage", 1)
    ctx.rule("L4.lock-order", "lock-order graph over the pool's mutex classes (edges: mutex held -> mutex acquired, "
             "through callees too) is acyclic and has no self edge", 1)
    edges = {}
    for inst in pool_instantiations(unit):
        fns = [f for f in pool_fns(unit, inst) if f.get("cfgok", True)]
        reach = reach_summary(unit, fns, lambda n: is_policy_call(n, pol, ("map", "unmap")))
        acq = acquire_summary(unit, fns)
        l3bad = []
        l5bad, n_l5 = [], [0]
        las = {f.did: LockAnalysis(f, fresh_sources=FRESH_SOURCES) for f in fns}
        # Entry locksets of internal helpers: intersection over all in-pool call sites of
        # (locks rooted at `this` definitely held there + the caller's own entry lockset).
        # Functions without in-pool callers are API entry points: entry lockset empty.
        callers = {f.did: [] for f in fns}
        for f in fns:
            for n in f.events():
                if n.is_call():
                    t = call_targets(unit, n)
                    if t is not None and t.did in callers and n.id in las[f.did].at:
                        callers[t.did].append((f, n))
        ALL = None
        entry = {f.did: (ALL if callers[f.did] else frozenset()) for f in fns}
        changed = True
        while changed:
            changed = False
            for f in fns:
                if not callers[f.did]:
                    continue
                acc = ALL
                for (cf, n) in callers[f.did]:
                    if entry[cf.did] is ALL:
                        continue
                    here = None
                    for st in las[cf.did].at[n.id]:
                        ls = frozenset(m for m in LockAnalysis.lockset(st) if m and m is not TOP and m[0] == "this")
                        here = ls if here is None else (here & ls)
                    here = (here or frozenset()) | entry[cf.did]
                    acc = here if acc is ALL else (acc & here)
                if acc is not ALL and acc != entry[f.did]:
                    entry[f.did] = acc
                    changed = True
        for f in fns:
            if entry[f.did] is ALL:
                entry[f.did] = frozenset()
        for f in fns:
            la = las[f.did]
            ent = entry[f.did]
            if la.problems:
                for p in la.problems:
                    ctx.broken("lockset analysis of %s: %s" % (f.qn, p))
            # L1
            sites = []
            for n in f.events():
                if not n.is_call():
                    continue
                t = call_targets(unit, n)
                if is_policy_call(n, pol, ("map", "unmap")) or (t is not None and t.did in reach):
                    sites.append(n)
            names = ordinal_names(f, sites, lambda n: n.callee["n"])
            for n in sites:
                held = set()
                for st in la.at.get(n.id, ()):
                    held |= LockAnalysis.maybe_lockset(st)
                if n.id in la.at:
                    held |= ent
                reached = n.id in la.at
                ctx.inst("L1.policy-unlocked", names[n.id] + config, not held, n.loc,
                         ("held at the call: %s" % sorted(short(h) for h in held)) if held else
                         ("lockset empty on all %d abstract paths" % len(la.at.get(n.id, ()))) + " (instantiation %s)" % inst,
                         f, nontrivial=reached)
            # L2
            per = {}
            for n in f.events():
                if n.kind != "MemberExpr" or n.get("mk") != "Field":
                    continue
                key = (n.get("mc"), n.m)
                if key not in L2_TABLE:
                    continue
                mode, prot, why = L2_TABLE[key]
                if f.kind == "ctor" and f.owner_cls == key[0]:
                    continue
                if mode == "write" and not is_write_access(f, n):
                    continue
                base = path(n.children[0]) if n.children else None
                bad = None
                for st in la.at.get(n.id, ()):
                    ls = LockAnalysis.lockset(st) | ent
                    # unpublished object exception
                    if base and len(base) == 1 and base[0].startswith("v:"):
                        did = int(base[0].rsplit("#", 1)[1])
                        if did in st[1]:
                            continue
                    if prot[0] == "sibling":
                        ok = base is not None and (base + (prot[1],)) in ls
                    elif prot[0] == "any":
                        ok = any(m and m is not TOP and m[-1] == prot[1] for m in ls)
                    else:
                        ok = prot[1] in ls
                    if not ok:
                        bad = "lockset %s" % sorted(short(m) for m in ls if m)
                per.setdefault(key, []).append((n, bad))
            for key, lst in per.items():
                lst.sort(key=lambda x: _lockey(x[0].loc))
                for i, (n, bad) in enumerate(lst):
                    ctx.inst("L2.protected-field", "%s: %s.%s #%d%s" % (f.uq, key[0].split("::")[-1], key[1], i + 1, config),
                             bad is None, n.loc,
                             ("access to %s without %s held (%s)" % (canon(n), L2_TABLE[key][1][1], bad)) if bad else
                             "%s accessed with %s held (instantiation %s)" % (canon(n), L2_TABLE[key][1][1], inst), f)
            # L5: the new value of a protected field is computed from what is read in the SAME critical section -- not from
            # the result of a member that takes the protecting mutex itself (a self-locking accessor: its critical section has
            # ended when the store happens, and an update made in between is lost)
            from . import rules_atomic as RA_
            inits_ = None
            for n in f.events():
                if n.kind != "BinaryOperator" or n.op != "=":
                    continue
                l = n.children[0].strip()
                if l.kind != "MemberExpr" or l.get("mk") != "Field" or (l.get("mc"), l.m) not in L2_TABLE:
                    continue
                if f.kind == "ctor" and f.owner_cls == l.get("mc"):
                    continue
                prot = L2_TABLE[(l.get("mc"), l.m)][1]
                prot = (prot[0], prot[1][-1] if isinstance(prot[1], tuple) else prot[1])
                if inits_ is None:
                    inits_ = RA_.local_inits(f)
                seen_, work_, stale_ = set(), [n.children[1]], None
                while work_ and stale_ is None:
                    x = work_.pop()
                    for y in x.walk():
                        if y.is_call():
                            t = call_targets(unit, y)
                            if t is not None and prot[1] in acq.get(t.did, set()):
                                stale_ = "%s() at %s" % (y.callee["n"], y.loc)
                                break
                        if y.kind == "DeclRefExpr" and y.get("local") and y.d["d"] in inits_ and y.d["d"] not in seen_:
                            seen_.add(y.d["d"])
                            work_.append(inits_[y.d["d"]])
                n_l5[0] += 1
                if stale_:
                    l5bad.append("%s: %s.%s is assigned at %s from the result of %s, which takes %s itself: the read and the store are "
                                 "two critical sections, an update in between is lost" % (f.name, l.get("mc").split("::")[-1], l.m, n.loc, stale_, prot[1]))
            # L3
            for n in f.events():
                if n.kind == "CXXMemberCallExpr" and n.callee and n.callee.get("cls") == "wit::Mutex":
                    l3bad.append("%s calls Mutex::%s directly at %s" % (f.uq, n.callee["n"], n.loc))
                if n.kind == "CXXNewExpr" and n.get("allocrt") in GUARD_CLASSES:
                    l3bad.append("%s heap/placement-allocates a guard at %s" % (f.uq, n.loc))
            # L4
            for n in f.events():
                acquired = set()
                if n.kind == "DeclStmt":
                    for d in n.get("decls", []):
                        if d.get("rt") in GUARD_CLASSES and "init" in d:
                            init = f.node(d["init"]).strip()
                            if init.kind in ("CXXConstructExpr", "CXXTemporaryObjectExpr"):
                                st = guard_ctor_state(init)
                                if st is not TOP and st[1] and st[0]:
                                    acquired.add(st[0][-1])
                elif n.kind == "CXXMemberCallExpr" and n.callee and n.callee.get("cls") in GUARD_CLASSES \
                        and n.callee["n"] == "lock":
                    obj = n.child("obj")
                    p = path(obj) if obj is not None else None
                    for st in la.at.get(n.id, ()):
                        for g in st[0]:
                            if p and p[0].endswith("#%d" % g[0]) and g[1] and g[1] is not TOP:
                                acquired.add(g[1][-1])
                elif n.is_call():
                    t = call_targets(unit, n)
                    if t is not None:
                        acquired |= acq.get(t.did, set())
                if not acquired:
                    continue
                for st in la.at.get(n.id, ()):
                    for h in (LockAnalysis.maybe_lockset(st) | ent):
                        if h and h is not TOP:
                            for a in acquired:
                                edges.setdefault((h[-1], a), "%s at %s" % (f.uq, n.loc))
        nrec = [r for r in unit.records if r["qn"].startswith(inst + "::") or r["qn"] == inst]
        for r in nrec:
            for fld in r["fields"]:
                if fld.get("rt") in GUARD_CLASSES:
                    l3bad.append("%s has a guard as a data member (%s)" % (r["qn"], fld["n"]))
        ctx.inst("L5.update-in-one-section", "frg::slab_pool::<all members>%s%s" % (inst[len(POOL):], config), not l5bad, fns[0].loc,
                 "; ".join(sorted(set(l5bad))[:2]) if l5bad else
                 "%d plain assignments to protected fields, none computed from a self-locking accessor" % n_l5[0])
        ctx.inst("L3.guards-only", "frg::slab_pool::<all members>" + config, not l3bad, "",
                 "; ".join(l3bad) if l3bad else "%d functions of %s examined" % (len(fns), inst))
    # acyclicity
    nodes = {a for e in edges for a in e}
    adj = {}
    for (a, b) in edges:
        adj.setdefault(a, set()).add(b)
    cyc = None
    for (a, b), where in edges.items():
        if a == b:
            cyc = "self edge %s -> %s (%s)" % (a, b, where)
    def reachable(src, dst):
        seen, st = set(), [src]
        while st:
            x = st.pop()
            for y in adj.get(x, ()):
                if y == dst:
                    return True
                if y not in seen:
                    seen.add(y)
                    st.append(y)
        return False
    for (a, b), where in edges.items():
        if a != b and reachable(b, a):
            cyc = "cycle through %s -> %s (%s)" % (a, b, where)
    ctx.inst("L4.lock-order", "frg::slab_pool::<lock order>" + config, cyc is None, "",
             cyc or "edges: %s" % (sorted("%s->%s" % e for e in edges) or "none"))


# ------------------------------------------------------------------ N: fallible results

def struct_aliases(fn):
    """{decl id: decl id}: a local of class type that is initialised as a copy of another local of class type (also:
    from the value a virtually inlined helper returns) designates the same field values."""
    out = {}
    for x in fn.all_nodes():
        if x.kind == "DeclStmt":
            for d in x.get("decls", []):
                if "init" not in d:
                    continue
                v = std_unwrap(fn.node(d["init"]))
                hops = 0
                while v.kind in ("CXXConstructExpr", "CXXTemporaryObjectExpr", "MaterializeTemporaryExpr", "ExprWithCleanups") and hops < 6:
                    a = v.args if v.kind in ("CXXConstructExpr", "CXXTemporaryObjectExpr") else v.children
                    if len(a) != 1:
                        break
                    v, hops = std_unwrap(a[0]), hops + 1
                if v.kind == "DeclRefExpr" and v.get("local") and hops > 0:
                    out[d["d"]] = v.d["d"]
                elif v.kind == "DeclRefExpr" and v.get("local") and hops == 0 and (d.get("n") or "").find(".") > 0:
                    # the scalar that stands for one field of a scalar-replaced aggregate (`ret.sb_base`), initialised from
                    # the local the aggregate was built from
                    out[d["d"]] = v.d["d"]
    # ... or assigned at each of several returns of the folded helper: an alias when every non-constant value is the same local
    asg = {}
    for x in fn.all_nodes():
        if x.kind == "BinaryOperator" and x.op == "=" and x.d.get("synthetic"):
            l = std_unwrap(x.children[0])
            r = std_unwrap(x.children[1])
            if l.kind == "DeclRefExpr" and l.d.get("field_of") is not None:
                asg.setdefault(l.d["d"], []).append(r)
    for did, vals in asg.items():
        srcs = {v.d["d"] for v in vals if v.kind == "DeclRefExpr" and v.get("local")}
        others = [v for v in vals if not (v.kind == "DeclRefExpr" and v.get("local"))]
        if len(srcs) == 1 and not others and did not in out:
            out[did] = next(iter(srcs))
    return out


def place_of(n, alias=None):
    """(decl id, field | None) of a local or of a field of a local of class type; None otherwise."""
    x = n.strip()
    did = fld = None

    def through_ref(y):
        # a reference parameter of a virtually inlined helper *is* the variable it is bound to
        z = std_unwrap(y)
        return z if (z.kind == "DeclRefExpr" and z.get("local")) else y
    if x.kind == "DeclRefExpr" and x.get("local"):
        did = through_ref(x).d["d"]
    elif x.kind == "MemberExpr" and x.get("mk") == "Field" and not x.get("arrow") and x.children:
        b = x.children[0].strip()
        if b.kind == "DeclRefExpr" and b.get("local"):
            did, fld = through_ref(b).d["d"], x.m
    if did is None:
        return None
    hops = 0
    while alias and did in alias and hops < 6:
        did, hops = alias[did], hops + 1
    return (did, fld)


def bound_var(fn, call):
    """The place the result of `call` is bound to: ('var', did | (did, field), binding element) / ('return', node) / None."""
    n = call
    p = fn.parent(n)
    while p is not None and (p.kind in ("ImplicitCastExpr", "ParenExpr", "CStyleCastExpr", "CXXStaticCastExpr",
                                        "CXXReinterpretCastExpr", "ExprWithCleanups", "CXXFunctionalCastExpr")):
        n, p = p, fn.parent(p)
    if p is None:
        # initialiser of a declaration: find the DeclStmt whose init is n
        for x in fn.all_nodes():
            if x.kind == "DeclStmt":
                for d in x.get("decls", []):
                    if d.get("init") == n.id:
                        return ("var", d["d"], x)
        return None
    if p.kind == "DeclStmt":
        for d in p.get("decls", []):
            if d.get("init") == n.id:
                return ("var", d["d"], p)
    if p.kind == "BinaryOperator" and p.op == "=" and p.children[1].id == n.id:
        l = p.children[0].strip()
        if l.kind == "DeclRefExpr" and l.get("local"):
            return ("var", place_of(l)[0], p)      # (through reference parameters of virtually inlined helpers)
        pl = place_of(l)
        if pl is not None and pl[1] is not None:
            return ("var", pl, p)          # a field of a local struct (e.g. a result record that is returned by value)
    if p.kind == "ReturnStmt":
        return ("return", p)
    return None


def check_fallible(ctx, rule, unit, fn, calls, label, allowed_in_null=()):
    """For each fallible call in `calls`: the result is bound to a local, tested before any other
    use, and the null arm returns null without writing non-local state or calling anything."""
    names = ordinal_names(fn, calls, label)
    for call in calls:
        b = bound_var(fn, call)
        if b is None:
            ctx.inst(rule, names[call.id], False, call.loc,
                     "result of %s is consumed without being bound and tested" % canon(call), fn)
            continue
        if b[0] == "return":
            ctx.inst(rule, names[call.id], True, call.loc, "result is returned unchanged (nullness propagates)", fn)
            continue
        did, bind = b[1], b[2]
        alias = struct_aliases(fn)
        place = did if isinstance(did, tuple) else (did, None)
        problems = []
        tested = [False]
        cond_ids = set()
        for blk in fn.blocks.values():
            if blk.cond is not None:
                for x in fn.node(blk.cond).walk():
                    cond_ids.add(x.id)

        cur_alias = [None]      # locals that hold a plain copy of the result on the current path (`result = new_p;`)

        def is_x(n):
            if place_of(n, alias) == place:
                return True
            if not cur_alias[0]:
                return False
            pn = place_of(n, alias)
            return pn is not None and pn[1] is None and pn[0] in cur_alias[0]

        def harmless_read(n):
            """The read only feeds arithmetic whose result goes into a local (or a field of a local): nothing is
            dereferenced, passed on or made visible before the test."""
            q, hops = fn.parent(n), 0
            while q is not None and hops < 30:
                if q.is_call() or q.kind in ("CXXNewExpr", "ArraySubscriptExpr", "ReturnStmt") or \
                        (q.kind == "UnaryOperator" and q.op == "*") or (q.kind == "MemberExpr" and q.get("arrow")):
                    return False
                if q.kind == "BinaryOperator" and q.op == "=":
                    return place_of(q.children[0]) is not None
                if q.kind == "DeclStmt":
                    return True
                if q.kind == "InlinedReturn":
                    return True         # handed back by a folded helper (inside the aggregate it returns): judged where it is used
                q, hops = fn.parent(q), hops + 1
            return False

        # locals computed from the result before it is tested (the aligned address from the raw mapping): "nothing is
        # passed on or dereferenced before the test" covers them too -- unpoison(address, ...) ahead of `if(!sb_base)`
        derived = set()
        for y in fn.all_nodes():
            tgt, src = None, None
            if y.kind == "BinaryOperator" and y.op == "=" and y.id != bind.id:
                tgt, src = place_of(y.children[0], alias), y.children[1]
            elif y.kind == "DeclStmt":
                for d_ in y.get("decls", []):
                    if "init" in d_ and any(z.kind in ("DeclRefExpr", "MemberExpr") and is_x(z) for z in fn.node(d_["init"]).walk()):
                        derived.add((d_["d"], None))
            if tgt is not None and tgt != place and src is not None and any(z.kind in ("DeclRefExpr", "MemberExpr") and is_x(z) for z in src.walk()):
                derived.add(tgt)

        def transfer(n, s2):
            s, al = s2
            if s is not None and n.id != bind.id:
                # locals written since the call (a result variable that still holds its initial null is null)
                wd = None
                if n.kind in ("BinaryOperator", "CompoundAssignOperator") and str(n.get("op", "")).endswith("=") and n.op not in ("==", "!=", "<=", ">="):
                    l0 = std_unwrap(n.children[0])
                    if l0.kind == "DeclRefExpr" and l0.get("local"):
                        wd = l0.d["d"]
                if wd is not None:
                    al = (al or frozenset()) | {("w", wd)}
                    s2 = (s, al)
            if n.kind == "BinaryOperator" and n.op == "=" and n.id != bind.id:
                lp = place_of(n.children[0], alias)
                if lp is not None and lp[1] is None and lp != place:
                    cur_alias[0] = al
                    if s is not None and is_x(n.children[1]) and std_unwrap(n.children[1]).kind in ("DeclRefExpr", "MemberExpr"):
                        return [(s, (al or frozenset()) | {lp[0]})]
                    if s in ("null", "null-returned") and std_unwrap(n.children[1]).cv() == 0:
                        # on the path on which the result is null, a local set to 0 holds the same value (the `{n, 0, 0}` a
                        # folded helper returns on failure)
                        return [(s, (al or frozenset()) | {lp[0]})]
                    if al and lp[0] in al:
                        return [(s, al - {lp[0]})]
            cur_alias[0] = al
            return [(r, al) for r in transfer0(n, s)]

        def transfer0(n, s):
            if n.id == bind.id:
                return ["untested"]
            if s is None:
                return [s]
            if s == "untested" and n.kind == "ReturnStmt" and n.child("val") is not None and is_x(n.child("val").strip()):
                return ["propagated"]       # handed to the caller untested: its nullness is the caller's to test
            if s == "untested" and derived and n.kind in ("DeclRefExpr", "MemberExpr") and place_of(n, alias) in derived \
                    and n.id not in cond_ids:
                par = fn.parent(n)
                is_lhs = par is not None and par.kind == "BinaryOperator" and par.op == "=" and par.children[0].id == n.id
                if not is_lhs and not harmless_read(n):
                    problems.append("%s, computed from the untested result, is used at %s before the result was tested" % (
                        canon(n).split("#")[0], n.loc))
            # reassignment kills tracking
            w = None
            if n.kind == "BinaryOperator" and n.op == "=" and is_x(n.children[0]) and n.id != bind.id:
                return [None]
            if s == "untested":
                if n.kind in ("DeclRefExpr", "MemberExpr") and is_x(n):
                    par = fn.parent(n)
                    if place[1] is None and par is not None and par.kind == "MemberExpr" and not par.get("arrow"):
                        return [s]          # part of an access to a field of the local, judged at the field
                    # reading x: allowed only inside a branch condition or as `return x`
                    if n.id in cond_ids:
                        return [s]
                    q = par
                    while q is not None and q.kind in ("ImplicitCastExpr", "ParenExpr"):
                        q = fn.parent(q)
                    if q is not None and q.kind == "ReturnStmt":
                        return [s]
                    if par is not None and par.kind == "BinaryOperator" and par.op == "=" and par.children[0].id == n.id:
                        return [s]
                    if harmless_read(n):
                        return [s]
                    problems.append("%s used at %s before it was tested" % (canon(n).split("#")[0], n.loc))
                return [s]
            if s in ("null", "null-returned"):
                if n.kind == "InlinedReturn":
                    # the failure arm sits in a folded helper: its `return nullptr` is the null that the caller hands on
                    v = n.child("val")
                    vs = v.strip() if v is not None else None
                    if vs is not None and (vs.get("nullc") or v.get("nullc") or is_x(vs) or vs.cv() == 0 or vs.kind == "CXXNullPtrLiteralExpr"):
                        return ["null-returned"]
                    return [s]
                if n.kind == "ReturnStmt" and s == "null-returned":
                    v = n.child("val")
                    if v is not None and v.strip().d.get("inlined"):
                        tested[0] = True
                        return [s]
                if n.is_call() and not (n.callee and n.callee["uq"] in allowed_in_null):
                    if n.kind in ("CXXConstructExpr",) and n.callee and n.callee.get("trivial"):
                        return [s]
                    problems.append("call %s at %s on the failure path" % (canon(n)[:60], n.loc))
                w = write_of(n)
                if w and (w[0] is None or not (w[0][0].startswith("v:") and len(w[0]) == 1)):
                    if n.kind != "CtorInit":
                        problems.append("write to %s at %s on the failure path" % (short(w[0]), n.loc))
                if n.kind == "ReturnStmt":
                    v = n.child("val")
                    if v is not None:
                        vs = v.strip()
                        still_null = False
                        vu = std_unwrap(vs)
                        if vu.kind == "DeclRefExpr" and vu.get("local") and ("w", vu.d["d"]) not in (cur_alias[0] or ()):
                            i0 = RA.local_inits(fn).get(vu.d["d"])
                            still_null = i0 is not None and (i0.strip().get("nullc") or i0.strip().kind == "CXXNullPtrLiteralExpr" or i0.strip().cv() == 0)
                        if not (vs.get("nullc") or v.get("nullc") or is_x(vs) or vs.cv() == 0
                                or vs.kind == "CXXNullPtrLiteralExpr" or still_null):
                            problems.append("failure path returns %s at %s, not null" % (canon(vs), n.loc))
                    tested[0] = True
                return [s]
            return [s]

        def refine(cond, truth, s2):
            s, al = s2
            cur_alias[0] = al
            return [(r, al) for r in refine0(cond, truth, s)]

        def refine0(cond, truth, s):
            if s in ("null", "null-returned", "nonnull"):
                # a later test of the same place (the caller's own test after a folded helper already tested it) prunes the
                # arm that contradicts what is known
                known = (s == "nonnull")
                if not flow.refine_bool(cond, truth, lambda a: (known if is_x(a) else None), lambda a, v: None):
                    return []
                return [s]
            if s not in ("untested",):
                return [s]
            box = [None]

            def lookup(a):
                return box[0] if is_x(a) else None

            def assume(a, v):
                if is_x(a):
                    box[0] = v
            if not flow.refine_bool(cond, truth, lookup, assume):
                return []
            if box[0] is True:
                return ["nonnull"]
            if box[0] is False:
                return ["null"]
            return [s]

        _, ex = flow.run(fn, [(None, None)], transfer, refine)
        ex = {e[0] for e in ex}
        if "untested" in ex:
            problems.append("a path reaches the function exit with the result never tested")
        if not tested[0] and not problems and "propagated" not in ex:
            problems.append("no failure arm returning null was found")
        ctx.inst(rule, names[call.id], not problems, call.loc,
                 "; ".join(sorted(set(problems))) if problems else
                 ("bound to a local and returned unchanged (nullness propagates)" if not tested[0] else
                  "bound to a local, tested before use, failure arm returns null with no writes/calls"), fn)


def check_C04(ctx, unit):
    pol = policy_classes(unit)
    ctx.rule("N.map-result", "the result of every Policy::map call is tested before use; the failure arm returns "
             "null without writing pool state or calling anything", 6)
    ctx.rule("N.construct-result", "allocate() tests the result of _construct_slab/_construct_large before use; "
             "the failure arm returns null with no pool-state write", 6)
    ctx.rule("N.realloc-alloc", "realloc() tests the inner allocate() before memcpy/free; on failure the source "
             "block is untouched and null is returned", 3)
    ctx.rule("N.raii-only", "mutexes are held only through automatic RAII guards, so no path (failure paths "
             "included) can leave a pool mutex locked", 3)
    for inst in pool_instantiations(unit):
        fns = pool_fns(unit, inst)
        byname = {}
        for f in fns:
            byname.setdefault(f.uq, []).append(f)
        maps = 0
        for f in fns:
            calls = [n for n in f.events() if is_policy_call(n, pol, ("map",))]
            maps += len(calls)
            if calls:
                check_fallible(ctx, "N.map-result", unit, f, calls, lambda n: "Policy::map")
        if maps < 2:
            raise AnalysisBroken("anchor vanished: fewer than two Policy::map call sites in %s" % inst)
        for f in byname.get(POOL + "::allocate", []):
            calls = [n for n in f.events() if n.is_call() and n.callee and n.callee["uq"] in
                     (POOL + "::_construct_slab", POOL + "::_construct_large")]
            if len(calls) < 2:
                raise AnalysisBroken("anchor vanished: _construct_slab/_construct_large call sites in allocate")
            check_fallible(ctx, "N.construct-result", unit, f, calls, lambda n: n.callee["n"])
        for f in byname.get(POOL + "::realloc", []):
            calls = [n for n in f.events() if n.is_call() and n.callee and n.callee["uq"] == POOL + "::allocate"]
            # the (null, n) forwarding call is returned directly; the fallback call must be tested
            check_fallible(ctx, "N.realloc-alloc", unit, f, calls, lambda n: "allocate")
            if not any(bound_var(f, c) and bound_var(f, c)[0] == "var" for c in calls):
                raise AnalysisBroken("anchor vanished: copying fallback allocate() in realloc")
            if any(is_policy_call(n, pol, ("poison",)) for g in fns for n in g.events()):
                from .rules_slab2 import realloc_exit_poisoned
                left = realloc_exit_poisoned(unit, fns, f, pol)
                ctx.inst("N.realloc-alloc", "%s::realloc: the source block when null is returned%s" % (POOL, inst[len(POOL):]), not left, f.loc,
                         ("the return at %s: a failed moving realloc must leave the still-live source block exactly as "
                          "accessible as it was" % left[0]) if left else
                         "every return is reached with the caller's block untouched, resized in place or freed", f)
        bad = []
        for f in fns:
            for n in f.events():
                if n.kind == "CXXMemberCallExpr" and n.callee and n.callee.get("cls") == "wit::Mutex":
                    bad.append("%s calls Mutex::%s directly at %s" % (f.uq, n.callee["n"], n.loc))
                if n.kind == "CXXNewExpr" and n.get("allocrt") in GUARD_CLASSES:
                    bad.append("%s allocates a guard dynamically at %s" % (f.uq, n.loc))
        ctx.inst("N.raii-only", "frg::slab_pool::<all members>", not bad, "",
                 "; ".join(bad) if bad else "%d functions of %s examined" % (len(fns), inst))
