"""Small disjunctive (path-sensitive over a finite domain) forward dataflow
engine over the event CFG, plus boolean condition evaluation/refinement."""
from .ir import path, std_unwrap


class TooManyStates(Exception):
    pass


def run(fn, init_states, transfer, refine=None, limit=20000, observe_edge=None):
    """Forward analysis. States are hashable. Returns (in_states, exit_states).

    transfer(node, state) -> iterable of successor states (empty = path ends)
    refine(cond_node, truth, state) -> iterable of states (empty = infeasible)
    """
    ins = {b: set() for b in fn.blocks}
    ins[fn.entry] = set(init_states)
    work = [fn.entry]
    total = 0
    while work:
        bid = work.pop()
        blk = fn.blocks[bid]
        cur = set(ins[bid])
        for n in blk.nodes():
            nxt = set()
            for s in cur:
                for t in transfer(n, s):
                    nxt.add(t)
            cur = nxt
            if not cur:
                break
        if not cur:
            continue
        for succ, cond, truth in fn.branch_edges(bid):
            out = set()
            for s in cur:
                if cond is not None and refine is not None:
                    for t in refine(cond, truth, s):
                        out.add(t)
                else:
                    out.add(s)
            if observe_edge is not None:
                observe_edge(bid, succ, out)
            new = out - ins[succ]
            if new:
                ins[succ] |= new
                total += len(new)
                if total > limit:
                    raise TooManyStates(fn.qn)
                if succ not in work:
                    work.append(succ)
    return ins, ins.get(fn.exit, set())


# ---- boolean conditions -------------------------------------------------

def eval_bool(n, lookup):
    """Evaluate condition tree under lookup(node) -> True/False/None for atoms.
    Returns True/False/None (unknown)."""
    n = n.strip()
    k = n.kind
    if k == "CXXBoolLiteralExpr":
        return bool(n.get("bv"))
    c = n.cv() if k != "DeclRefExpr" else None
    if c is not None and k in ("IntegerLiteral",):
        return c != 0
    if k == "UnaryOperator" and n.op == "!":
        v = eval_bool(n.children[0], lookup)
        return None if v is None else (not v)
    if k == "BinaryOperator" and n.op in ("&&", "||"):
        a = eval_bool(n.children[0], lookup)
        b = eval_bool(n.children[1], lookup)
        if n.op == "&&":
            if a is False or b is False:
                return False
            if a is True and b is True:
                return True
            return None
        if a is True or b is True:
            return True
        if a is False and b is False:
            return False
        return None
    v = lookup(n)
    return v


def refine_bool(n, truth, lookup, assume):
    """Propagate `n == truth` down to atoms: calls assume(atom_node, value).
    Returns False if the assumption contradicts known facts."""
    n = n.strip()
    k = n.kind
    known = eval_bool(n, lookup)
    if known is not None and known != truth:
        return False
    if k == "UnaryOperator" and n.op == "!":
        return refine_bool(n.children[0], not truth, lookup, assume)
    if k == "BinaryOperator" and n.op in ("&&", "||"):
        a, b = n.children[0], n.children[1]
        if n.op == "&&":
            if truth:
                return refine_bool(a, True, lookup, assume) and refine_bool(b, True, lookup, assume)
            va, vb = eval_bool(a, lookup), eval_bool(b, lookup)
            if va is True:
                return refine_bool(b, False, lookup, assume)
            if vb is True:
                return refine_bool(a, False, lookup, assume)
            return True
        else:
            if not truth:
                return refine_bool(a, False, lookup, assume) and refine_bool(b, False, lookup, assume)
            va, vb = eval_bool(a, lookup), eval_bool(b, lookup)
            if va is False:
                return refine_bool(b, True, lookup, assume)
            if vb is False:
                return refine_bool(a, True, lookup, assume)
            return True
    assume(n, truth)
    return True


# ---- dominating branch facts ------------------------------------------------

def must_facts(fn, bid):
    """[(cond node, truth)] for branch decisions that hold on every normal path to block bid."""
    dom = fn.dominators()
    out = []
    for d in dom.get(bid, ()):
        edges = fn.branch_edges(d)
        if len(edges) != 2 or edges[0][1] is None:
            continue
        for (s, cond, truth), (s2, _, _) in ((edges[0], edges[1]), (edges[1], edges[0])):
            if s == s2:
                continue
            if not (s == bid or s in dom.get(bid, ())):
                continue
            if s == d:
                continue
            # every other predecessor of s must itself be dominated by s (loop back edges)
            ok = True
            for p in fn.blocks[s].preds:
                if p == d:
                    continue
                if s not in dom.get(p, ()):
                    ok = False
            if ok:
                out.append((cond, truth))
    return out


def facts_at(fn, node_id):
    pos = fn.positions()
    if node_id not in pos:
        return []
    return must_facts(fn, pos[node_id][0])
