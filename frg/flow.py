"""Small disjunctive (path-sensitive over a finite domain) forward dataflow
engine over the event CFG, plus boolean condition evaluation/refinement."""
from .ir import path, std_unwrap


class TooManyStates(Exception):
    pass


def switch_edges(fn, bid):
    """For a block terminated by a switch: [(succ, case value or None for the default / fall-out edge, all case values)]."""
    b = fn.blocks[bid]
    out, vals = [], []
    for s_, r in zip(b.succs, b.reach):
        if not r or s_ < 0:
            continue
        lab = fn.blocks[s_].label
        ln = fn.node(lab) if lab is not None else None
        v = None
        if ln is not None and ln.kind == "CaseStmt" and ln.get("casev") is not None:
            v = int(ln.get("casev"))
            vals.append(v)
        out.append((s_, v))
    return [(s_, v, tuple(vals)) for s_, v in out]


def run(fn, init_states, transfer, refine=None, limit=20000, observe_edge=None, refine_switch=None):
    """Forward analysis. States are hashable. Returns (in_states, exit_states).

    transfer(node, state) -> iterable of successor states (empty = path ends)
    refine(cond_node, truth, state) -> iterable of states (empty = infeasible)
    refine_switch(cond_node, case value | None, all case values, state) -> iterable of states, for switch edges
    """
    ins = {b: set() for b in fn.blocks}
    ins[fn.entry] = set(init_states)
    work = [fn.entry]
    total = 0
    while work:
        bid = work.pop()
        blk = fn.blocks[bid]
        cur = set(ins[bid])
        for n in blk.nodes():
            nxt = set()
            for s in cur:
                for t in transfer(n, s):
                    nxt.add(t)
            cur = nxt
            if not cur:
                break
        if not cur:
            continue
        if refine_switch is not None and blk.termkind == "SwitchStmt" and blk.cond is not None and not blk.noret:
            cn = fn.node(blk.cond)
            for succ, cv_, allv in switch_edges(fn, bid):
                out = set()
                for s in cur:
                    for t in refine_switch(cn, cv_, allv, s):
                        out.add(t)
                if observe_edge is not None:
                    observe_edge(bid, succ, out)
                new = out - ins[succ]
                if new:
                    ins[succ] |= new
                    total += len(new)
                    if total > limit:
                        raise TooManyStates(fn.qn)
                    if succ not in work:
                        work.append(succ)
            continue
        for succ, cond, truth in fn.branch_edges(bid):
            out = set()
            for s in cur:
                if cond is not None and refine is not None:
                    for t in refine(cond, truth, s):
                        out.add(t)
                else:
                    out.add(s)
            if observe_edge is not None:
                observe_edge(bid, succ, out)
            new = out - ins[succ]
            if new:
                ins[succ] |= new
                total += len(new)
                if total > limit:
                    raise TooManyStates(fn.qn)
                if succ not in work:
                    work.append(succ)
    return ins, ins.get(fn.exit, set())


# ---- boolean conditions -------------------------------------------------

def eval_bool(n, lookup):
    """Evaluate condition tree under lookup(node) -> True/False/None for atoms.
    Returns True/False/None (unknown)."""
    n = n.strip()
    k = n.kind
    if k == "CXXBoolLiteralExpr":
        return bool(n.get("bv"))
    c = n.cv() if k != "DeclRefExpr" else None
    if c is not None and k in ("IntegerLiteral",):
        return c != 0
    if k == "UnaryOperator" and n.op == "!":
        v = eval_bool(n.children[0], lookup)
        return None if v is None else (not v)
    if k == "BinaryOperator" and n.op in ("==", "!="):
        l, r = n.children[0].strip(), n.children[1].strip()
        for x, y in ((l, r), (r, l)):
            if y.get("nullc") or y.kind == "CXXNullPtrLiteralExpr" or (y.kind == "IntegerLiteral" and y.cv() == 0 and (x.get("t") or "").endswith("*")):
                v = lookup(x)
                if v is None:
                    return None
                return (not v) if n.op == "==" else bool(v)
    if k == "BinaryOperator" and n.op in ("&&", "||"):
        a = eval_bool(n.children[0], lookup)
        b = eval_bool(n.children[1], lookup)
        if n.op == "&&":
            if a is False or b is False:
                return False
            if a is True and b is True:
                return True
            return None
        if a is True or b is True:
            return True
        if a is False and b is False:
            return False
        return None
    v = lookup(n)
    return v


def refine_bool(n, truth, lookup, assume):
    """Propagate `n == truth` down to atoms: calls assume(atom_node, value).
    Returns False if the assumption contradicts known facts."""
    n = n.strip()
    k = n.kind
    known = eval_bool(n, lookup)
    if known is not None and known != truth:
        return False
    if k == "UnaryOperator" and n.op == "!":
        return refine_bool(n.children[0], not truth, lookup, assume)
    if k == "BinaryOperator" and n.op in ("&&", "||"):
        a, b = n.children[0], n.children[1]
        if n.op == "&&":
            if truth:
                return refine_bool(a, True, lookup, assume) and refine_bool(b, True, lookup, assume)
            va, vb = eval_bool(a, lookup), eval_bool(b, lookup)
            if va is True:
                return refine_bool(b, False, lookup, assume)
            if vb is True:
                return refine_bool(a, False, lookup, assume)
            return True
        else:
            if not truth:
                return refine_bool(a, False, lookup, assume) and refine_bool(b, False, lookup, assume)
            va, vb = eval_bool(a, lookup), eval_bool(b, lookup)
            if va is False:
                return refine_bool(b, True, lookup, assume)
            if vb is False:
                return refine_bool(a, True, lookup, assume)
            return True
    if k == "BinaryOperator" and n.op in ("==", "!="):
        l, r = n.children[0].strip(), n.children[1].strip()
        for x, y in ((l, r), (r, l)):
            if y.get("nullc") or y.kind == "CXXNullPtrLiteralExpr":
                # x == nullptr  <=>  !x
                assume(x, (n.op == "!=") == truth)
                return True
    assume(n, truth)
    return True


# ---- dominating branch facts ------------------------------------------------

def must_facts(fn, bid):
    """[(cond node, truth)] for branch decisions that hold on every normal path to block bid."""
    dom = fn.dominators()
    out = []
    for d in dom.get(bid, ()):
        edges = fn.branch_edges(d)
        if len(edges) != 2 or edges[0][1] is None:
            continue
        for (s, cond, truth), (s2, _, _) in ((edges[0], edges[1]), (edges[1], edges[0])):
            if s == s2:
                continue
            if not (s == bid or s in dom.get(bid, ())):
                continue
            if s == d:
                continue
            # every other predecessor of s must itself be dominated by s (loop back edges)
            ok = True
            for p in fn.blocks[s].preds:
                if p == d:
                    continue
                if s not in dom.get(p, ()):
                    ok = False
            if ok:
                out.append((cond, truth))
    # a `switch` decides like a chain of equality tests: on the edge into `case V:` (not reached by falling through from
    # the case before) the selector equals V; on the default / fall-out edge it differs from every case value
    for d in dom.get(bid, ()):
        blk = fn.blocks[d]
        if blk.termkind != "SwitchStmt" or blk.cond is None or blk.noret:
            continue
        edges = switch_edges(fn, d)
        for s, v, allv in edges:
            if not (s == bid or s in dom.get(bid, ())) or s == d:
                continue
            if any(p != d and s not in dom.get(p, ()) for p in fn.blocks[s].preds):
                continue
            if [e for e in edges if e[0] == s] != [(s, v, allv)]:
                continue        # several labels on one block
            if v is not None:
                lab = fn.node(fn.blocks[s].label)
                eq = _switch_fact(fn, blk.cond, lab)
                if eq is not None:
                    out.append((eq, True))
            else:
                for s2, v2, _ in edges:
                    if v2 is not None and fn.blocks[s2].label is not None:
                        eq = _switch_fact(fn, blk.cond, fn.node(fn.blocks[s2].label))
                        if eq is not None:
                            out.append((eq, False))
    # `A && B` true gives A and B; `A || B` false gives !A and !B; negations are folded -- so that rules matching the
    # shape of a single test keep seeing it when a refactoring merges or splits conditions
    i = 0
    seen = {(c.id, t) for c, t in out}
    while i < len(out):
        c, t = out[i]
        i += 1
        x = c.strip()
        sub = []
        if x.kind == "UnaryOperator" and x.op == "!":
            sub = [(x.children[0], not t)]
        elif x.kind == "BinaryOperator" and ((x.op == "&&" and t) or (x.op == "||" and not t)):
            sub = [(x.children[0], t), (x.children[1], t)]
        for c2, t2 in sub:
            if (c2.id, t2) not in seen:
                seen.add((c2.id, t2))
                out.append((c2, t2))
    return out


def _switch_fact(fn, cond_id, label):
    """the node `selector == case constant` for a case label (made once per label, outside every block)"""
    cache = fn.__dict__.setdefault("_switch_facts", {})
    key = (cond_id, label.id)
    if key not in cache:
        lhs = [c for c in label.d.get("c", []) if c is not None and c != label.d.get("sub")]
        if not lhs:
            cache[key] = None
        else:
            nid = len(fn._nodes)
            fn._nodes.append({"i": nid, "k": "BinaryOperator", "op": "==", "c": [cond_id, lhs[0]], "t": "bool", "l": label.loc,
                              "synthetic": True, "fact_only": True})
            cache[key] = fn.node(nid)
    return cache[key]


def run_ps(fn, init_states, transfer, refine=None, **kw):
    """flow.run, path-sensitive on what folded bool helpers returned: when a virtually inlined call leaves through a `return
    true` / `return false`, the state remembers that constant for that call; a branch whose condition -- read with the remembered
    constants, Kleene-style -- comes out the other way is not taken.  `if(!(held_<0>() || held_<1>() || held_<2>()))` over
    folded helpers then behaves like the if/else chain it stands for, without the rule knowing about it."""
    v2c = {}
    for n in fn.all_nodes():
        if n.d.get("inlined") and isinstance(n.d.get("rets"), list):
            for r in n.d["rets"]:
                v2c[r] = n.id
    if not v2c:
        return run(fn, init_states, transfer, refine, **kw)
    def const_of(v):
        x = v.strip()
        hops = 0
        while x.kind in ("ImplicitCastExpr", "ParenExpr", "ExprWithCleanups") and x.children and hops < 6:
            x, hops = x.children[0].strip(), hops + 1
        if x.kind == "CXXBoolLiteralExpr":
            return 1 if x.get("bv") else 0
        c = x.cv() if x.kind not in ("DeclRefExpr", "MemberExpr") else None
        return c if c in (0, 1) else None

    def tr(n, s2):
        s, rm = s2
        if n.kind == "InlinedReturn" and n.d.get("val") in v2c:
            call = v2c[n.d["val"]]
            c = const_of(fn.node(n.d["val"]))
            rm = frozenset(p for p in rm if p[0] != call)
            if c is not None and len(rm) < 16:
                rm = rm | {(call, c)}
        return [(t, rm) for t in transfer(n, s)]

    inits_ = None

    def rf(cond, truth, s2):
        nonlocal inits_
        s, rm = s2
        if rm:
            m = dict(rm)

            def val(leaf):
                nonlocal inits_
                x = leaf
                hops = 0
                while x is not None and hops < 8:
                    if x.id in m:
                        return m[x.id]
                    if x.kind == "DeclRefExpr" and x.get("local") and x.get("dk") == "Var":
                        # a once-initialised local that holds what a folded helper returned
                        if inits_ is None:
                            from . import rules_atomic as _RA
                            inits_ = (_RA.local_inits(fn), _RA)
                        i0 = inits_[0].get(x.d["d"])
                        if i0 is not None and not inits_[1]._reassigned(fn, x.d["d"]):
                            return sem_eval(i0, val, m)
                        return None
                    if x.d.get("inlined") and isinstance(x.d.get("rets"), list) and len(x.d["rets"]) == 1:
                        # a folded helper with one return: its value is that expression (`return (a() || b() || c());`)
                        return sem_eval(fn.node(x.d["rets"][0]), val, m)
                    if x.kind in ("ImplicitCastExpr", "ParenExpr", "ExprWithCleanups", "CXXBindTemporaryExpr") and x.children:
                        x, hops = x.children[0], hops + 1
                    else:
                        break
                return None
            try:
                v = sem_eval(cond, val, m)
            except Exception:
                v = None
            if v is not None and bool(v) != bool(truth):
                return []
        # the decision itself is remembered: a value computed from it later (`(tag == I ? (f(), true) : false) || ...` held in a
        # local and tested afterwards) is read consistently with the way this path went
        cid = cond.strip().id
        if len(rm) < 32:
            rm = frozenset(p for p in rm if p[0] != cid) | {(cid, 1 if truth else 0)}
        res = refine(cond, truth, s) if refine is not None else [s]
        return [(t, rm) for t in res]
    ins, ex = run(fn, [(s, frozenset()) for s in init_states], tr, rf, **kw)
    ins2 = {b: {t[0] for t in ss} for b, ss in ins.items()}
    return ins2, {t[0] for t in ex}


def facts_at(fn, node_id):
    pos = fn.positions()
    if node_id not in pos:
        return []
    return must_facts(fn, pos[node_id][0])


# ---- natural loops and induction variables (loop-form agnostic: for / while / do / goto) -------------------

class NLoop:
    def __init__(self, fn, header):
        self.fn = fn
        self.header = header
        self.body = {header}
        self.latches = set()

    def contains_block(self, b):
        return b in self.body

    def contains(self, n):
        pos = self.fn.positions()
        return n.id in pos and pos[n.id][0] in self.body

    @property
    def cond(self):
        """The condition that decides between staying in and leaving the loop: the terminator condition of the
        header if it has an exit edge, else of the first body block with an exit edge."""
        for b in [self.header] + sorted(self.body - {self.header}, reverse=True):
            blk = self.fn.blocks[b]
            if blk.cond is not None and any(s not in self.body for s in blk.live_succs()):
                c = self.fn.node(blk.cond)
                if c.strip().cv() is None:
                    return c
        return None


def natural_loops(fn):
    dom = fn.dominators()
    rb = fn.reachable_blocks()
    loops = {}
    for b in rb:
        for s in fn.blocks[b].live_succs():
            if s in dom.get(b, ()):
                lp = loops.setdefault(s, NLoop(fn, s))
                lp.latches.add(b)
                st = [b]
                while st:
                    x = st.pop()
                    if x in lp.body:
                        continue
                    lp.body.add(x)
                    st.extend(p for p in fn.blocks[x].preds if p in rb)
    return sorted(loops.values(), key=lambda l: -l.header)


def _var_of(n):
    n = std_unwrap(n)
    if n.kind == "DeclRefExpr" and n.get("local"):
        return n.d["d"]
    return None


def induction(fn, lp):
    """{var did: {'bound': (op, bound node) normalised to `var op bound`, 'steps': [nodes], 'init': node or None}}
    for variables compared in the loop's controlling condition."""
    out = {}
    c = lp.cond
    if c is None:
        return out
    conj = []

    def split(x):
        x = x.strip()
        if x.kind == "BinaryOperator" and x.op == "&&":
            split(x.children[0]); split(x.children[1])
        else:
            conj.append(x)
    split(c)
    swap = {"<": ">", ">": "<", "<=": ">=", ">=": "<=", "!=": "!=", "==": "=="}
    groups = []          # candidates that stem from the same comparison: the ones that never step are dropped below
    for x in conj:
        rel = fact_relation(x, True)        # folds negations: `!(len < off + n)` is `off + n <= len`
        if rel is not None:
            l, xop, r = rel
            vl, vr = _var_of(l), _var_of(r)
            grp = []
            if vl is not None and vl not in out:
                out[vl] = {"bound": (xop, r)}
                grp.append(vl)
            if vr is not None and vr not in out:
                out[vr] = {"bound": (swap[xop], l)}
                grp.append(vr)
            # `v + e OP bound` (e.g. off + item_size <= length): v is the induction variable, e an offset
            for side, other, op_ in ((l, r, xop), (r, l, swap[xop])):
                ss = side.strip()
                if ss.kind == "BinaryOperator" and ss.op == "+":
                    for a_, b_ in ((ss.children[0], ss.children[1]), (ss.children[1], ss.children[0])):
                        va = _var_of(a_)
                        if va is not None and va not in out:
                            out[va] = {"bound": (op_, other), "offset": b_}
                            grp.append(va)
            groups.append(grp)
        else:
            v = _var_of(x)
            if v is not None:
                out.setdefault(v, {})["bound"] = ("!=0", None)
    for v, info in out.items():
        steps, inits = [], []
        for b in fn.blocks.values():
            for n in b.nodes():
                tgt = None
                if n.kind in ("BinaryOperator", "CompoundAssignOperator") and n.op.endswith("=") and n.op not in ("==", "!=", "<=", ">="):
                    tgt = _var_of(n.children[0])
                elif n.kind == "UnaryOperator" and n.op in ("++", "--"):
                    tgt = _var_of(n.children[0])
                elif n.kind == "DeclStmt":
                    for d in n.get("decls", []):
                        if d["d"] == v and "init" in d:
                            inits.append((b.id, n, fn.node(d["init"])))
                    continue
                if tgt != v:
                    continue
                if b.id in lp.body:
                    steps.append(n)
                elif n.kind == "BinaryOperator" and n.op == "=":
                    inits.append((b.id, n, n.children[1]))
        dom = fn.dominators()
        good = [(b, n, val) for (b, n, val) in inits if b not in lp.body and (b == lp.header or b in dom.get(lp.header, ()))]
        info["steps"] = steps
        # the last dominating definition before the loop
        init = None
        for (b, n, val) in good:
            if init is None or fn.reaches(init[1].id, n.id):
                init = (b, n, val)
        info["init"] = init[2] if init else None
    for grp in groups:
        if len(grp) > 1 and any(out[v]["steps"] for v in grp):
            for v in grp:
                if not out[v]["steps"]:
                    del out[v]
        elif len(grp) > 1:
            for v in grp[1:]:
                del out[v]
    return out


def fact_relation(cond, truth):
    """Normalise a comparison fact to (left node, op, right node) with op in {<, <=, ==, !=}; None otherwise.
    `a > b` true becomes (b, <, a); `a < b` false becomes (b, <=, a); leading negations are folded."""
    c, t = cond.strip(), truth
    while c.kind == "UnaryOperator" and c.op == "!":
        c, t = c.children[0].strip(), not t
    if c.kind != "BinaryOperator" or c.op not in ("<", "<=", ">", ">=", "==", "!="):
        return None
    a, b, op = c.children[0], c.children[1], c.op
    if not t:
        op = {"<": ">=", "<=": ">", ">": "<=", ">=": "<", "==": "!=", "!=": "=="}[op]
    if op == ">":
        return (b, "<", a)
    if op == ">=":
        return (b, "<=", a)
    return (a, op, b)


def sem_eval(n, val, memo=None):
    """Evaluate a condition under a valuation of its leaves: val(leaf node) -> int (pointers: 0 = null) or None.
    Handles ! && || and the six comparisons; returns None when a needed leaf is unknown.  `memo` (node id -> value) is
    consulted first at every node: decisions already taken on the path."""
    n = n.strip()
    k = n.kind
    if memo is not None and n.id in memo:
        return memo[n.id]

    def _se(n_, val_):       # (the recursive calls below carry the memo along)
        return sem_eval(n_, val_, memo)
    if k == "BinaryOperator" and n.op == "," and len(n.children) == 2:
        return _se(n.children[1], val)
    if k == "CXXNullPtrLiteralExpr" or n.get("nullc"):
        return 0
    c = n.cv() if k not in ("DeclRefExpr", "MemberExpr") else None
    if c is not None:
        return c
    if k == "UnaryOperator" and n.op == "!":
        v = _se(n.children[0], val)
        return None if v is None else int(not v)
    if k == "BinaryOperator":
        if n.op in ("&&", "||"):
            a = _se(n.children[0], val)
            if a is not None and ((n.op == "&&" and not a) or (n.op == "||" and a)):
                return int(bool(a))
            b = _se(n.children[1], val)
            if b is not None and ((n.op == "&&" and not b) or (n.op == "||" and b)):
                return int(bool(b))           # Kleene: decided by the known operand (operands are side-effect free here)
            if a is None or b is None:
                return None
            return int(bool(a) and bool(b)) if n.op == "&&" else int(bool(a) or bool(b))
        if n.op in ("<", "<=", ">", ">=", "==", "!="):
            a, b = _se(n.children[0], val), _se(n.children[1], val)
            if a is None or b is None:
                return None
            return int({"<": a < b, "<=": a <= b, ">": a > b, ">=": a >= b, "==": a == b, "!=": a != b}[n.op])
    if k in ("ImplicitCastExpr", "ParenExpr") and n.children:
        return _se(n.children[0], val)
    if k == "ConditionalOperator" and len(n.children) == 3:
        c0 = _se(n.children[0], val)
        if c0 is not None:
            return _se(n.children[1] if c0 else n.children[2], val)
        a, b = _se(n.children[1], val), _se(n.children[2], val)
        return a if a is not None and a == b else None
    if k == "DeclRefExpr" and n.get("dk") == "EnumConstant":
        v = val(n)
        return v if v is not None else n.cv()
    return val(n)


# ---- path-sensitive enumeration of the values of never-assigned scalars (parameters: conversion letter, size modifier) ----

def value_states(fn, domains, observe, other=-99999):
    """domains: {decl id: iterable of int values}. Runs the CFG once per combination of values (plus `other` for each
    variable), refining on every branch / switch whose condition can be evaluated from those variables (through the
    parameter bindings of virtually inlined helpers), and calls observe(node, {decl id: value}) for every element
    reached in that state."""
    import itertools
    keys = sorted(domains, key=str)
    init = [tuple(c) for c in itertools.product(*[list(sorted(set(domains[k]))) + [other] for k in keys])]
    bm = fn.bind_map()

    # a key may also be the canonical text of an expression (e.g. `spec[i]`): every occurrence of that expression, and
    # every once-initialised local that holds it, has the value of the key
    from .ir import canon as _canon
    ekeys = [k for k in keys if isinstance(k, str)]
    alias = {}
    if ekeys:
        for n_ in fn.all_nodes():
            if n_.kind == "DeclStmt":
                for d_ in n_.get("decls", []):
                    if "init" in d_ and _canon(fn.node(d_["init"]).strip()) in ekeys and not _reassigned_local(fn, d_["d"]):
                        alias[d_["d"]] = _canon(fn.node(d_["init"]).strip())

    def leaf_val(st):
        def val(x):
            x = x.strip()
            if ekeys and x.kind != "DeclRefExpr":
                t_ = _canon(x)
                if t_ in ekeys:
                    return st[keys.index(t_)]
            if x.kind == "DeclRefExpr":
                d = x.d["d"]
                if d in bm:
                    return sem_eval(fn.node(bm[d]), val)
                if d in alias:
                    return st[keys.index(alias[d])]
                if d in keys:
                    return st[keys.index(d)]      # `other` is a value distinct from every constant of the domain
                if x.get("dk") == "EnumConstant" or x.get("cv") is not None:
                    return x.cv()
            return None
        return val

    def transfer(n, st):
        observe(n, dict(zip(keys, st)))
        return [st]

    def refine(cond, truth, st):
        v = sem_eval(cond, leaf_val(st))
        if v is None or bool(v) == truth:
            return [st]
        # `other` stands for every value outside the domain: a comparison with an in-domain constant is decided,
        # anything else stays unknown (sem_eval returned None for it)
        return []

    def refine_switch(cond, casev, allv, st):
        v = sem_eval(cond, leaf_val(st))
        if v is None:
            return [st]
        if casev is None:
            return [st] if v not in allv else []
        return [st] if v == casev else []

    run(fn, init, transfer, refine, limit=400000, refine_switch=refine_switch)


def _reassigned_local(fn, did):
    for x in fn.all_nodes():
        if x.kind in ("BinaryOperator", "CompoundAssignOperator") and str(x.get("op", "")).endswith("=") and x.op not in ("==", "!=", "<=", ">="):
            if _var_of(x.children[0]) == did:
                return True
        if x.kind == "UnaryOperator" and x.op in ("++", "--", "&") and _var_of(x.children[0]) == did:
            return True
    return False


def reaching_defs(fn, did, at_id):
    """Value nodes of the definitions (initialiser or plain assignment) of local `did` that reach element `at_id`
    (None in the set = reached without a definition, or through a compound update)."""
    out = set()

    def transfer(n, s):
        if n.id == at_id:
            out.add(s)
        if n.kind == "DeclStmt":
            for d in n.get("decls", []):
                if d["d"] == did:
                    s = d.get("init")
        elif n.kind == "BinaryOperator" and n.op == "=":
            v = _var_of(n.children[0])
            if v == did:
                s = n.children[1].id
        elif n.kind in ("CompoundAssignOperator", "UnaryOperator") and n.get("op") in ("+=", "-=", "*=", "/=", "++", "--", "|=", "&=", "<<=", ">>="):
            if _var_of(n.children[0]) == did:
                s = None
        return [s]
    run(fn, [None], transfer, None)
    return {(fn.node(i) if i is not None else None) for i in out}


def value_arms(fn, v, at):
    """[(value node, branch decisions that hold where that value is produced)]: the arms of `c ? a : b` (nested ones too)
    are separate values, each under the decisions of its own arm; any other value is produced at element `at`."""
    x = v.strip()
    if x.kind == "ConditionalOperator" and len(x.children) == 3:
        return value_arms(fn, x.children[1], at) + value_arms(fn, x.children[2], at)
    pos = fn.positions()
    cur, hops = x, 0
    while cur is not None and cur.id not in pos and hops < 10:
        ch = cur.children
        cur, hops = (ch[0] if ch else None), hops + 1
    anchor = cur if cur is not None and cur.id in pos else at
    return [(v, facts_at(fn, anchor.id))]


def const_fold(fn, n, depth=0):
    """Integer value of an expression built from literals, the constants clang already evaluated, and parameters of
    virtually inlined helpers that are bound to such expressions (`limit` in `(limit - 9) / 10` bound to INT_MAX);
    None if it is not a compile-time constant in that sense.  Unsigned results wrap to the width of the node."""
    if n is None or depth > 12:
        return None
    x = n.strip()
    c = x.cv() if x.kind not in ("DeclRefExpr", "MemberExpr") else (x.cv() if x.get("dk") == "EnumConstant" else None)
    if c is not None:
        return c
    if x.kind == "DeclRefExpr":
        bm = fn.bind_map()
        if x.d.get("d") in bm:
            return const_fold(fn, fn.node(bm[x.d["d"]]), depth + 1)
        if x.cv() is not None:
            return x.cv()
        if x.get("local") and not _reassigned_local(fn, x.d.get("d")):
            # a once-initialised local whose initialiser folds
            for m in fn.all_nodes():
                if m.kind == "DeclStmt":
                    for d in m.get("decls", []):
                        if d.get("d") == x.d.get("d") and "init" in d:
                            return const_fold(fn, fn.node(d["init"]), depth + 1)
        return None
    if x.kind == "ConditionalOperator" and len(x.children) == 3:
        c_ = const_fold(fn, x.children[0], depth + 1)
        if c_ is not None:
            return const_fold(fn, x.children[1 if c_ else 2], depth + 1)
        a_, b_ = const_fold(fn, x.children[1], depth + 1), const_fold(fn, x.children[2], depth + 1)
        return a_ if a_ is not None and a_ == b_ else None

    def wrap(v):
        bits = x.get("bits")
        if v is None or not bits:
            return v
        if x.get("sgn") is False:
            return v % (1 << bits)
        return v
    if x.kind == "BinaryOperator" and x.op in ("+", "-", "*", "/", "%", "<<", ">>", "&", "|"):
        a, b = const_fold(fn, x.children[0], depth + 1), const_fold(fn, x.children[1], depth + 1)
        if a is None or b is None:
            return None
        try:
            if x.op in ("/", "%"):
                if not b:
                    return None
                q = abs(a) // abs(b) * (1 if (a >= 0) == (b >= 0) else -1)      # C++ truncates toward zero
                return wrap(q if x.op == "/" else a - b * q)
            return wrap({"+": a + b, "-": a - b, "*": a * b, "<<": a << b, ">>": a >> b, "&": a & b, "|": a | b}[x.op])
        except (ValueError, OverflowError):
            return None
    if x.kind == "BinaryOperator" and x.op in ("&&", "||"):
        # short-circuit: `false && e` and `true || e` are constants whatever e is
        a, b = const_fold(fn, x.children[0], depth + 1), const_fold(fn, x.children[1], depth + 1)
        for v in (a, b):
            if v is not None and ((x.op == "&&" and not v) or (x.op == "||" and v)):
                return int(bool(v))
        if a is None or b is None:
            return None
        return int(bool(a) and bool(b)) if x.op == "&&" else int(bool(a) or bool(b))
    if x.kind == "UnaryOperator" and x.op == "!" and x.children:
        a = const_fold(fn, x.children[0], depth + 1)
        return None if a is None else int(not a)
    if x.kind == "UnaryOperator" and x.op in ("~", "-", "+") and x.children:
        a = const_fold(fn, x.children[0], depth + 1)
        if a is None:
            return None
        return wrap(~a if x.op == "~" else (-a if x.op == "-" else a))
    if x.kind in ("CXXFunctionalCastExpr", "CStyleCastExpr", "CXXStaticCastExpr", "ParenExpr", "ImplicitCastExpr") and x.children:
        return wrap(const_fold(fn, x.children[0], depth + 1))
    return None

