"""C18: bitset, array, PRNG constants, insertion_sort; R — unconditional self-recursion."""
from .ir import path, canon, std_unwrap, AnalysisBroken
from . import flow
from . import rules_atomic as RA
from . import rules_bounds as RB
from .rules_guard import write_of
from .rules_own import cls_fns, recs_of, check_const_subscripts


def check_self_recursion(ctx, unit, fns, rule="R.self-recursion"):
    """A function whose every normal path calls itself never returns."""
    n = 0
    for f in fns:
        if not f.blocks:
            continue
        calls = [c for c in f.events() if c.is_call() and c.callee and c.callee["did"] == f.did]
        if not calls:
            continue
        n += 1
        pos = f.positions()
        inevitable = [c for c in calls if f.dominates_block(pos[c.id][0], f.exit) or pos[c.id][0] in f.dominators().get(f.exit, ())]
        ctx.inst(rule, f.sig, not inevitable, (inevitable[0].loc if inevitable else f.loc),
                 "every path through the function calls the function itself (%s): unbounded recursion" % canon(inevitable[0])[:80]
                 if inevitable else "recursive call is conditional", f)
    return n


MT = [624, 397, 0x9908b0df, 0x80000000, 0x7fffffff, 1812433253, 30, 11, 7, 0x9d2c5680, 15, 0xefc60000, 18, 5489]
PCG = [6364136223846793005, 18, 27, 59, 31]


def fn_constants(f):
    out = set()
    for n in f.all_nodes():
        c = n.cv()
        if c is not None:
            out.add(c & 0xFFFFFFFFFFFFFFFF if c >= 0 else c)
    return out


def _mk_keyof(f, pid, env):
    """key of an integer the interval environment tracks: the shift amount parameter or a once-initialised local, also when it
    is named through the parameter of a folded helper (move_words_up(wshift): the helper's `wshift` is the caller's)"""
    bm = f.bind_map()

    def keyof(x):
        x = x.strip()
        hops = 0
        while x.kind == "DeclRefExpr" and x.d.get("d") in bm and hops < 8:
            y = std_unwrap(f.node(bm[x.d["d"]]))
            if y.kind != "DeclRefExpr":
                break
            x, hops = y, hops + 1
        if x.kind == "DeclRefExpr" and (x.d["d"] == pid or x.d["d"] in env["__inits__"]):
            return x.d["d"]
        return None
    return keyof


def check_C18(ctx, unit, nbits):
    tag = " [N=%d]" % nbits
    BS = "frg::bitset"
    ctx.rule("B1.const-subscript", "array<T,N>: every constant subscript of the storage is < N (== N only as an address)", 4)
    check_const_subscripts(ctx, unit, ["frg::array"], rule="B1.const-subscript")
    # ... and of the bitset's word buffer, in every instantiated size (N / 64, buffer_size - 1 are constants there)
    check_const_subscripts(ctx, unit, [BS], rule="B1.const-subscript")
    ctx.rule("I.word-count", "bitset<N> stores exactly ceil(N / 64) words (decided on the record layout of each instantiated size)", 1)
    ctx.rule("E.equal-covers-words", "bitset::operator== compares every word of the buffer (decided per instantiated size: index "
             "loops with their constant bounds and constant subscripts cover [0, ceil(N / 64)))", 1)
    ctx.rule("I.bitset-ctor", "every bitset constructor writes every word of the buffer, and one that stores a caller value "
             "masks the bits at and beyond N afterwards", 2)
    ctx.rule("I.mask-after-dirty-write", "every bitset member that writes a word with ~x, x << k or a caller value calls "
             "mask_last_bit() after its last such write on every path (single-bit set(pos) excepted: precondition pos < N)", 3)
    ctx.rule("B4.shift-guard", "in operator<<= and operator>>= every buffer access whose position depends on the shift "
             "amount is dominated by a comparison that bounds the shift amount (or the word offset derived from it)", 2)
    ctx.rule("B3.shift-range", "every shift count in bitset and the PRNGs stays within [0, width) (interval analysis with "
             "branch refinement)", 6)
    ctx.rule("B8.no-unsigned-wrap", "in operator<<= and operator>>= no unsigned subtraction (word counts, loop bounds, offsets) can "
             "go below zero for any shift amount the guard lets through (interval analysis + relational loop facts)", 2)
    ctx.rule("R.self-recursion", "no function calls itself on every path", 0)
    ctx.rule("E.bitref", "bit reference: assignment from another reference reads the source bit through operator bool and "
             "writes its own index; operator~ negates the bit value", 2)
    ctx.rule("T.prng-constants", "the published MT19937 and PCG32 constants all occur in the generator's functions; the "
             "bounded draw returns r % bound after rejecting r < threshold", 3)
    ctx.rule("I.seed-complete", "seed() of both generators writes every data member on every path, and the lazy-refill "
             "condition of mt19937::operator() is established when seed() returns (so re-seeding restarts the stream)", 2)
    ctx.rule("E.sort-swaps-only", "insertion_sort writes through its iterators only by std::swap, guarded by comp(*i, *j) "
             "with i before j (so the result is a permutation)", 1)
    for rec in recs_of(unit, BS):
        fns = cls_fns(unit, rec["qn"])
        ext = None
        for fl in rec["fields"]:
            if fl["n"] == "buffer" and fl.get("extent"):
                ext = int(fl["extent"])
        if ext is None:
            raise AnalysisBroken("anchor vanished: bitset::buffer")
        # exactly ceil(N / 64) words: a word more is a word that no mask ever clears and that count()/==/>>= read
        ctx.inst("I.word-count", "%s: extent of the word buffer" % rec["qn"], ext == (nbits + 63) // 64, rec.get("loc", ""),
                 "%d words for %d bits (ceil(N / 64) = %d)%s" % (ext, nbits, (nbits + 63) // 64,
                                                                "" if ext == (nbits + 63) // 64 else
                                                                ": the surplus word lies wholly at or beyond bit N and is never masked"), None)
        # operator== looks at every word: the word indices it compares (index loops with constant bounds in this
        # instantiation, constant subscripts) cover [0, word count)
        for f in [g_ for g_ in fns if g_.name == "operator==" and g_.blocks]:
            covered = set()
            unknown = False
            for n in f.all_nodes():
                if n.kind != "ArraySubscriptExpr" or not (path(n.children[0]) and path(n.children[0])[-1] == "buffer"):
                    continue
                ix = std_unwrap(n.children[1])
                c = ix.cv()
                if c is None:
                    c = flow.const_fold(f, n.children[1])
                if c is not None:
                    covered.add(int(c))
                    continue
                if ix.kind == "DeclRefExpr" and ix.get("local"):
                    rng = None
                    for lp in flow.natural_loops(f):
                        ind = flow.induction(f, lp).get(ix.d["d"])
                        if not ind or ind.get("init") is None or "bound" not in ind:
                            continue
                        lo = std_unwrap(ind["init"]).cv()
                        op_, bn = ind["bound"]
                        hi = (std_unwrap(bn).cv() if bn is not None else None)
                        if hi is None and bn is not None:
                            hi = flow.const_fold(f, bn)
                        if lo is not None and hi is not None and op_ in ("<", "<=", "!="):
                            rng = range(int(lo), int(hi) + (1 if op_ == "<=" else 0))
                    if rng is not None:
                        covered |= set(rng)
                        continue
                unknown = True
            if unknown:
                ctx.inst("E.equal-covers-words", "%s::operator==%s" % (BS, tag), True, f.loc, "word indices not all constant in this form: not decided", f, nontrivial=False)
            else:
                miss = sorted(set(range(ext)) - covered)
                ctx.inst("E.equal-covers-words", "%s::operator==%s" % (BS, tag), not miss, f.loc,
                         "word(s) %s of %d are never compared: bitsets that differ only there compare equal" % (miss, ext) if miss else
                         "compares words %s" % sorted(covered), f)
        masks = [f for f in fns if f.name == "mask_last_bit"]
        mask_did = {m.did for m in masks}       # may be empty: the masking statement can be spelled out in place
        last_word = nbits // 64
        mask_val = (1 << (nbits % 64)) - 1

        def mask_events(f):
            """Calls of mask_last_bit(), or its body spelled out: buffer[N/64] &= (1 << N%64) - 1."""
            ev = [n for n in f.events() if n.is_call() and n.callee and n.callee["did"] in mask_did]
            for n in f.events():
                if n.kind == "CompoundAssignOperator" and n.op == "&=":
                    p = path(n.children[0])
                    if p and p[:2] == ("this", "buffer") and len(p) == 3 and p[2] == "[%d]" % last_word and \
                            n.children[1].strip().cv() == mask_val:
                        ev.append(n)
            return ev
        vacuous = (nbits % 64 == 0)      # nothing at or above N exists in the last word

        def buffer_writes(f):
            """[(element, index kind, rhs)] : writes to words of this->buffer (incl. through range-for refs / pointers)."""
            out = []
            refs = set()   # locals bound to elements of buffer (range-for variable, pointer iterators)
            inits = RA.local_inits(f)
            for did, init in inits.items():
                c = canon(init)
                if "this.buffer" in c or "__begin" in c or "__range" in c:
                    refs.add(did)
            # reference parameters of virtually inlined helpers / lambdas that are bound to such an element
            grew = True
            while grew:
                grew = False
                for did, a in f.bind_map().items():
                    if did in refs:
                        continue
                    an = f.node(a)
                    c = canon(an)
                    if "this.buffer" in c or "__begin" in c or "__range" in c or any(
                            x.kind == "DeclRefExpr" and x.d.get("d") in refs for x in an.walk()):
                        refs.add(did)
                        grew = True
            for n in f.events():
                if n.kind in ("BinaryOperator", "CompoundAssignOperator") and n.op.endswith("=") and n.op not in ("==", "!=", "<=", ">="):
                    l = n.children[0]
                    lp = path(l)
                    ls = l.strip()
                    if lp and len(lp) >= 2 and lp[0] == "this" and lp[1] == "buffer":
                        kind_ = lp[2] if len(lp) > 2 else "[*]"
                        if kind_ == "[*]" and ls.kind == "ArraySubscriptExpr":
                            # `for(i = 0; i != buffer_size; ++i) buffer[i] = v`: an index loop over all words
                            iv_ = std_unwrap(ls.children[1])
                            if iv_.kind == "DeclRefExpr":
                                for nl_ in flow.natural_loops(f):
                                    if not nl_.contains(n):
                                        continue
                                    info_ = flow.induction(f, nl_).get(iv_.d["d"])
                                    if not info_ or not info_.get("steps") or info_.get("init") is None or not info_.get("bound"):
                                        continue
                                    op_, bnd_ = info_["bound"]
                                    st_ = info_["steps"]
                                    if op_ in ("<", "!=") and bnd_ is not None and flow.const_fold(f, info_["init"]) == 0 \
                                            and flow.const_fold(f, bnd_) == ext and len(st_) == 1 and st_[0].kind == "UnaryOperator" and st_[0].op == "++":
                                        kind_ = "[all]"
                        out.append((n, kind_, n.children[1], n.op))
                    elif ls.kind == "DeclRefExpr" and ls.d["d"] in refs:
                        out.append((n, "[all]", n.children[1], n.op))
                    elif ls.kind == "UnaryOperator" and ls.op == "*":
                        q = ls.children[0].strip()
                        if q.kind == "DeclRefExpr" and q.d["d"] in refs:
                            rng = ptr_range(f, n, q.d["d"], inits)
                            if rng is None:
                                out.append((n, "[ptr]", n.children[1], n.op))
                            else:
                                for k_ in range(rng[0], min(rng[1], rng[0] + 4096)):
                                    out.append((n, "[%d]" % k_, n.children[1], n.op))
            return out

        def ptr_range(f, wr, qd, inits):
            """`for(p = buffer + A; p < buffer + B; p++) *p = v` with A and B constant (possibly parameters of a folded helper
            bound to constants): the words [A, B) are written"""
            def off(e):
                e = std_unwrap(e)
                if e.kind == "DeclRefExpr" and e.d.get("d") in f.bind_map():
                    e = std_unwrap(f.node(f.bind_map()[e.d["d"]]))
                pe = path(e)
                if pe and len(pe) == 2 and pe[0] == "this" and e.kind in ("MemberExpr", "ImplicitCastExpr", "DeclRefExpr"):
                    return 0
                if e.kind == "ImplicitCastExpr" and e.children:
                    return off(e.children[0])
                if e.kind == "BinaryOperator" and e.op == "+":
                    for a_, b_ in ((e.children[0], e.children[1]), (e.children[1], e.children[0])):
                        if off(a_) == 0:
                            return flow.const_fold(f, b_)
                return None
            ini = inits.get(qd)
            if ini is None:
                return None
            a = off(ini)
            if a is None:
                return None
            for lp in flow.natural_loops(f):
                if not lp.contains(wr) or lp.cond is None:
                    continue
                rel = flow.fact_relation(lp.cond, True)
                if rel is None or rel[1] not in ("<", "!="):
                    continue
                l_ = std_unwrap(rel[0])
                if l_.kind == "DeclRefExpr" and l_.d.get("d") == qd:
                    b = off(rel[2])
                    if b is not None and b >= a:
                        return (a, b)
            return None

        def dirty(f, rhs, op):
            pids = {p["d"] for p in f.params()}
            for x in rhs.walk():
                if x.kind == "UnaryOperator" and x.op == "~":
                    return "~"
                if x.kind == "BinaryOperator" and x.op == "<<":
                    return "<<"
                if x.kind == "DeclRefExpr" and x.d["d"] in pids and x.get("bits"):
                    if f.kind == "ctor" or True:
                        # a buffer word of the other operand (rhs.buffer[i]) is masked already
                        return "caller value"
            return None

        for f in fns:
            if f.kind == "ctor" and not f.get("copy") and not f.get("move"):
                bw = buffer_writes(f)
                idxs = {w[1] for w in bw}
                allw = "[all]" in idxs or {"[%d]" % i for i in range(ext)} <= idxs
                if not allw:
                    # delegation to a constructor that initialises every word
                    for n in f.events():
                        if n.kind == "CtorInit" and n.get("delegating") and n.child("init") is not None:
                            tgt = n.child("init").strip()
                            t = unit.by_did.get(tgt.callee["did"]) if tgt.callee else None
                            if t is not None:
                                ti = {w[1] for w in buffer_writes(t)}
                                if "[all]" in ti or {"[%d]" % i for i in range(ext)} <= ti:
                                    allw = True
                                    idxs = idxs | {"[all] via delegation"}
                d = [w for w in bw if dirty(f, w[2], w[3])]
                masked = True
                if d and not vacuous:
                    mc = mask_events(f)
                    masked = any(f.postdominates(m.id, d[-1][0].id) or f.reaches(d[-1][0].id, m.id) and
                                 f.dominates_block(f.positions()[m.id][0], f.exit) for m in mc)
                ctx.inst("I.bitset-ctor", "%s%s" % (f.sig, tag), allw and masked, f.loc,
                         "words written: %s of %d; stores a caller value: %s; masked afterwards: %s" % (
                             sorted(idxs), ext, bool(d), masked), f)
        EXEMPT = {"set(size_t, bool)": "single bit at caller position: precondition pos < N as for std::bitset::set"}
        for f in fns:
            if f.kind in ("ctor", "dtor") or f.did in mask_did:
                continue
            bw = buffer_writes(f)
            d = [w for w in bw if dirty(f, w[2], w[3])]
            if not d:
                continue
            key = "%s(%s)" % (f.name, ", ".join(p["t"] for p in f.params()))
            if key in EXEMPT:
                ctx.inst("I.mask-after-dirty-write", "%s%s" % (f.sig, tag), True, f.loc, "exempt: " + EXEMPT[key], f, nontrivial=False)
                continue
            mc = mask_events(f)
            bad = []
            for w in d:
                if vacuous:
                    continue
                if any(m.id == w[0].id for m in mc):
                    continue
                if not any(f.postdominates(m.id, w[0].id) for m in mc):
                    bad.append("write %s at %s (%s) is not followed by mask_last_bit() on every path" % (canon(w[0])[:50], w[0].loc, dirty(f, w[2], w[3])))
            ctx.inst("I.mask-after-dirty-write", "%s%s" % (f.sig, tag), not bad, f.loc,
                     "; ".join(bad[:3]) if bad else "%d word writes that can set high bits, all followed by mask_last_bit()" % len(d), f)
        # B4
        for f in fns:
            if f.name not in ("operator<<=", "operator>>="):
                continue
            ps = f.params()
            if len(ps) != 1:
                raise AnalysisBroken("anchor vanished: shift amount parameter of %s" % f.qn)
            pos = ps[0]["d"]
            inits = RA.local_inits(f)
            tainted = {pos}
            grew = True
            while grew:
                grew = False
                for did, init in inits.items():
                    if did not in tainted and any(x.kind == "DeclRefExpr" and x.d["d"] in tainted for x in init.walk()):
                        tainted.add(did)
                        grew = True
                # parameters of folded helpers (move_words_up(wshift)) carry what they are bound to
                for did, a_ in f.bind_map().items():
                    if did not in tainted and any(x.kind == "DeclRefExpr" and x.d.get("d") in tainted for x in f.node(a_).walk()):
                        tainted.add(did)
                        grew = True
            # loop variables whose bounds are tainted
            for blk in f.blocks.values():
                if blk.termkind == "ForStmt" and blk.cond is not None:
                    c = f.node(blk.cond)
                    if any(x.kind == "DeclRefExpr" and x.d["d"] in tainted for x in c.walk()):
                        for x in c.walk():
                            if x.kind == "DeclRefExpr" and x.get("local"):
                                tainted.add(x.d["d"])
            acc = []
            for n in f.events():
                if n.kind == "ArraySubscriptExpr":
                    bp = path(n.children[0])
                    if bp and bp[:2] == ("this", "buffer") and any(x.kind == "DeclRefExpr" and x.d["d"] in tainted for x in n.children[1].walk()):
                        acc.append(n)
                if n.kind == "BinaryOperator" and n.op in ("+", "-") and (n.get("t") or "").endswith("*"):
                    bp = path(n.children[0])
                    if bp and bp[:2] == ("this", "buffer") and any(x.kind == "DeclRefExpr" and x.d["d"] in tainted for x in n.children[1].walk()):
                        acc.append(n)
            if not acc:
                raise AnalysisBroken("anchor vanished: shift-dependent buffer accesses in %s" % f.qn)
            base_taint = {pos} | {d for d in tainted if d in inits and not any(
                x.kind == "DeclRefExpr" and x.get("local") and x.d["d"] != pos and x.d["d"] in tainted for x in inits[d].walk())}
            unguarded = []
            for n in acc:
                ok = False
                for cond, truth in flow.facts_at(f, n.id):
                    for x in cond.walk():
                        if x.kind == "BinaryOperator" and x.op in ("<", "<=", ">", ">="):
                            l, r = x.children[0].strip(), x.children[1].strip()
                            for a, b in ((l, r), (r, l)):
                                if a.kind == "DeclRefExpr" and a.d["d"] in base_taint and a.d["d"] in (tainted - _loopvars(f)):
                                    bc = b.cv()
                                    if bc is not None and bc > 0:
                                        ok = True
                if not ok:
                    unguarded.append(n)
            ctx.inst("B4.shift-guard", "%s%s" % (f.sig, tag), not unguarded, (unguarded[0].loc if unguarded else f.loc),
                     ("%d of %d shift-dependent buffer accesses (first: %s) are not dominated by any bound on the shift amount: "
                      "a shift by >= 64*words indexes outside the object" % (len(unguarded), len(acc), canon(unguarded[0])[:60]))
                     if unguarded else "all %d shift-dependent accesses are dominated by a bound on the shift amount" % len(acc), f)
        # B8: unsigned subtractions in the shift operators must not wrap
        for f in fns:
            if f.name not in ("operator<<=", "operator>>="):
                continue
            inits = RA.local_inits(f)
            pid = f.params()[0]["d"]
            subs = sorted([n for n in f.events() if n.kind == "BinaryOperator" and n.op == "-" and n.get("bits") and not n.get("sgn")],
                          key=lambda n: n.loc)
            bad = []
            for n in subs:
                env = {"__inits__": {d: i for d, i in list(inits.items()) + list(RA.bound_value_params(f).items())
                                     if not RA._reassigned(f, d) and (i.get("bits") or i.strip().get("bits"))}}
                keyof = _mk_keyof(f, pid, env)
                rel = None
                for cond, truth in flow.facts_at(f, n.id):
                    env = RB.refine_env(env, cond, truth, keyof)
                    c = cond.strip()
                    # relational fact a >= b / a > b on exactly the operands of this subtraction
                    if c.kind == "BinaryOperator" and c.op in (">=", ">", "<", "<=") :
                        a, b = canon(c.children[0]), canon(c.children[1])
                        op = c.op if truth else {">=": "<", ">": "<=", "<": ">=", "<=": ">"}[c.op]
                        l0 = n.children[0].strip()
                        # (x - y) or ((x - y) - k)
                        x, y = canon(n.children[0]), canon(n.children[1])
                        if (a, b) == (x, y) and op in (">=", ">"):
                            rel = 1 if op == ">" else 0
                        if l0.kind == "BinaryOperator" and l0.op == "-" and (a, b) == (canon(l0.children[0]), canon(l0.children[1])) and op == ">":
                            k = n.children[1].strip().cv()
                            if k is not None and k <= 1:
                                rel = 0
                if rel is not None:
                    continue
                if _diff_nonneg(f, n, inits):
                    continue
                a = RB.ieval(n.children[0], env, f)
                b = RB.ieval(n.children[1], env, f)
                if a.lo < b.hi:
                    bad.append("%s at %s: left operand ranges over %s, right over %s — the unsigned difference can wrap" % (
                        canon(n)[:50], n.loc, a, b))
            # unsigned decrements (count-down loops): `--i` needs i >= 1, i.e. the loop's lower bound must be known positive
            # (`i >= wshift` keeps a size_t counter alive for ever when wshift can be 0)
            decs = sorted([n for n in f.events() if n.kind == "UnaryOperator" and n.op == "--" and n.children and
                           n.children[0].strip().kind == "DeclRefExpr" and n.children[0].strip().get("bits") and not n.children[0].strip().get("sgn")
                           and not (n.children[0].strip().get("t") or "").rstrip().endswith("*")],
                          key=lambda n: n.loc)
            for n in decs:
                iv_ = n.children[0].strip()
                env = {"__inits__": {d: i for d, i in list(inits.items()) + list(RA.bound_value_params(f).items())
                                     if not RA._reassigned(f, d) and (i.get("bits") or i.strip().get("bits"))}}
                keyof = _mk_keyof(f, pid, env)
                facts = flow.facts_at(f, n.id)
                for cond, truth in facts:
                    env = RB.refine_env(env, cond, truth, keyof)
                # x % K == 0 and x >= 1 give x >= K
                for _ in range(2):
                    for d, ini in env["__inits__"].items():
                        cur = env.get(d)
                        m = ini.strip()
                        if cur is not None and cur.lo == 0 and cur.hi == 0 and m.kind == "BinaryOperator" and m.op == "%":
                            kx, K = keyof(m.children[0]), m.children[1].strip().cv()
                            if kx is not None and K and kx in env and env[kx].lo >= 1:
                                lo = ((env[kx].lo + K - 1) // K) * K
                                env[kx] = RB.Iv(max(env[kx].lo, lo), env[kx].hi)
                                # intervals of locals computed from x are recomputed from their initialisers
                                for d2 in list(env["__inits__"]):
                                    if d2 != d and d2 in env:
                                        del env[d2]
                lo_i = 0
                for cond, truth in facts:
                    rel = flow.fact_relation(cond, truth)
                    if rel is None:
                        continue
                    a, op, b = rel
                    if op in ("<", "<=") and b.strip().kind == "DeclRefExpr" and b.strip().d["d"] == iv_.d["d"]:
                        lo_i = max(lo_i, RB.ieval(a, env, f).lo + (1 if op == "<" else 0))
                    if op == "!=" and {canon(a), canon(b)} >= {canon(iv_)} and (a.strip().cv() == 0 or b.strip().cv() == 0):
                        lo_i = max(lo_i, 1)
                if lo_i < 1:
                    bad.append("--%s at %s: nothing on this path keeps the unsigned counter above zero (its lower bound %s can be 0): "
                               "the decrement wraps and the loop condition stays true" % (iv_.n, n.loc,
                                                                                          "from the loop condition" if facts else "")) 
            ctx.inst("B8.no-unsigned-wrap", "%s%s" % (f.sig, tag), not bad, f.loc,
                     "; ".join(bad[:2]) if bad else "%d unsigned subtractions and %d unsigned decrements, none can go below zero on the guarded "
                     "range of the shift amount" % (len(subs), len(decs)), f)
        # B3 over all bitset members
        for f in fns:
            if any(n.kind in ("BinaryOperator", "CompoundAssignOperator") and n.op in ("<<", ">>", "<<=", ">>=") for n in f.events()):
                doms = {}
                RB.check_shifts(ctx, "B3.shift-range", f, doms, instance_prefix="%s%s" % (f.sig, tag))
        # reference
        for rr in unit.records:
            if rr["uq"] == BS + "::reference" and rr["qn"].startswith(rec["qn"]):
                sp = rr.get("special", {})
                dflt = bool(sp.get("simple_copy_assign")) or any(m.get("n") == "operator=" and m.get("defaulted") for m in rr.get("methods", []))
                ctx.inst("E.bitref", "%s::reference: copy assignment%s" % (BS, tag), not dflt, rr["loc"],
                         "the proxy's copy assignment is implicit / defaulted: `b[i] = b[j]` rebinds the proxy instead of writing the bit"
                         if dflt else "copy assignment is user-provided (it writes the referenced bit)", None)
        for f in unit.functions:
            if f.owner_cls == BS + "::reference" and f.owner_clsqn.startswith(rec["qn"]):
                if f.name == "operator=" and f.params() and "reference" in f.params()[0]["t"]:
                    sets = [n for n in f.events() if n.is_call() and n.callee and n.callee["n"] == "set"]
                    ok = False
                    why = "no call of set()"
                    if not sets:
                        # `return *this = static_cast<bool>(x);`: forwards to the proxy's own operator=(bool) with the source
                        # converted through its operator bool
                        for c_ in f.events():
                            if c_.kind == "CXXOperatorCallExpr" and c_.callee and c_.callee.get("op") == "=" and c_.callee.get("clsqn") == f.owner_clsqn \
                                    and c_.callee.get("ptypes") == ["bool"] and len(c_.args) == 2:
                                tgt_ = std_unwrap(c_.args[0])
                                on_this = tgt_.kind == "UnaryOperator" and tgt_.op == "*" and tgt_.children and std_unwrap(tgt_.children[0]).kind == "CXXThisExpr"
                                val_ = c_.args[1]
                                vs_ = std_unwrap(val_)
                                if vs_.kind == "DeclRefExpr" and vs_.get("local") and vs_.d["d"] in RA.local_inits(f) and not RA._reassigned(f, vs_.d["d"]):
                                    val_ = RA.local_inits(f)[vs_.d["d"]]        # (unstripped: the conversion sits on a cast node)
                                conv_ = any(x.get("convfn", "").endswith("operator bool") and any(
                                    y.kind == "DeclRefExpr" and y.d.get("d") == f.params()[0]["d"] for y in x.walk()) for x in val_.walk())
                                ok = on_this and conv_
                                why = "forwards to operator=(bool) on *this: %s; value is the source through operator bool: %s" % (on_this, conv_)
                    for s_ in sets:
                        a = s_.args
                        conv = any(x.get("convfn", "").endswith("operator bool") for x in a[1].walk()) if len(a) > 1 else False
                        if not conv and len(a) > 1:
                            # the same expression operator bool() returns, spelled out on the source reference
                            # (`x.s.test(x.index)`), possibly held in a once-initialised local
                            import re as _re
                            ob = [g for g in unit.functions if g.owner_clsqn == f.owner_clsqn and g.name == "operator bool"]
                            from .ir import value_leaves
                            rv = None
                            if ob:
                                lv_ = [y for r_ in ob[0].return_nodes() for y in value_leaves(ob[0], r_.child("val"))]
                                rv = lv_[0] if len(lv_) == 1 else None     # (through a folded `value()` helper)
                            pn = f.params()[0]
                            val = RA.resolve_local(f, a[1])
                            lv2 = value_leaves(f, val)          # (through parameters of folded helpers and their returns)
                            if len(lv2) == 1:
                                val = RA.resolve_local(f, lv2[0])
                            # (the spelled-out form must read the SOURCE reference only: a member of *this in it -- its own
                            # index, its own bitset -- would turn into the same text after the substitution below)
                            if rv is not None and not any(y.kind == "CXXThisExpr" for y in std_unwrap(val).walk()):
                                want = canon(std_unwrap(rv))
                                got = canon(std_unwrap(val))
                                # (a member folded in on the source object has `this` rebound to `&x`)
                                got = got.replace("(& %s#%d)" % (pn["n"], pn["d"]), "this")
                                got = _re.sub(r"\b%s#%d\b" % (_re.escape(pn["n"]), pn["d"]), "this", got)
                                conv = want == got
                        own = path(a[0]) == ("this", "index") if a else False
                        ok = conv and own
                        why = "value read through operator bool: %s; own index written: %s" % (conv, own)
                    ctx.inst("E.bitref", "%s%s" % (f.sig, tag), ok, f.loc, why, f)
                if f.name == "operator~":
                    rs = f.return_nodes()
                    v = rs[0].child("val").strip() if rs and rs[0].child("val") is not None else None
                    selfcall = any(c.is_call() and c.callee and c.callee["did"] == f.did for c in f.events())
                    ctx.inst("E.bitref", "%s%s" % (f.sig, tag), not selfcall, f.loc,
                             "operator~ applies itself to s[index] (a reference), never producing a value" if selfcall else
                             "returns %s" % (canon(v) if v is not None else "?"), f)
    n = check_self_recursion(ctx, unit, [f for f in unit.functions if f.uq.startswith("frg::")])
    # PRNGs
    for cls, consts, mins in (("frg::mt19937", MT, 2), ("frg::pcg_basic32", PCG, 2)):
        fs = [f for f in unit.functions if f.owner_cls == cls or f.uq.startswith(cls + "::")]
        if len(fs) < mins:
            raise AnalysisBroken("anchor vanished: %s" % cls)
        have = set()
        for f in fs:
            have |= fn_constants(f)
        for r in unit.record(cls):
            pass
        # class-level constexpr members are referenced by value in the functions (cv of DeclRefExpr)
        miss = [c for c in consts if c not in have]
        ctx.inst("T.prng-constants", cls, not miss, fs[0].loc, "missing published constants: %s" % [hex(m) for m in miss] if miss else
                 "all %d published constants occur" % len(consts))
        for f in fs:
            RB.check_shifts(ctx, "B3.shift-range", f, {})
    # (re)seeding establishes the complete generator state: every data member is written on every path of seed(), and
    # for a generator that refills its state lazily the refill condition of the draw operator holds when seed() returns
    for cls in ("frg::mt19937", "frg::pcg_basic32"):
        recs = unit.record(cls)
        seeds = [f for f in unit.functions if f.owner_cls == cls and f.name == "seed" and f.blocks]
        if not recs or not seeds:
            raise AnalysisBroken("anchor vanished: %s::seed" % cls)
        fields = [fl["n"] for fl in recs[0]["fields"]]
        draws = [f for f in unit.functions if f.owner_cls == cls and f.name == "operator()" and not f.params() and f.blocks]
        for f in seeds:
            def transfer(n, st):
                w = write_of(n)
                if w and w[0] and w[0][0] == "this" and len(w[0]) >= 2 and w[0][1] in fields:
                    return [st | {w[0][1]}]
                return [st]
            _, ex = flow.run(f, [frozenset()], transfer, None)
            miss = sorted({fl for st in ex for fl in fields if fl not in st})
            problems = []
            if miss or not ex:
                problems.append("seed() leaves member(s) %s untouched on some path: re-seeding does not restart the stream" % miss)
            # lazy refill: the branch of operator() whose arm rewrites the state array
            for g in draws:
                arrs = [fl["n"] for fl in recs[0]["fields"] if fl.get("extent")]
                for blk in g.blocks.values():
                    if blk.cond is None or len(g.branch_edges(blk.id)) != 2:
                        continue
                    rel = flow.fact_relation(g.node(blk.cond), True)
                    if rel is None:
                        continue
                    pa, pb = path(rel[0]), path(rel[2])
                    fld = [p_[1] for p_ in (pa, pb) if p_ and p_[0] == "this" and len(p_) == 2 and p_[1] in fields and p_[1] not in arrs]
                    tsucc = [s_ for s_, _c, t_ in g.branch_edges(blk.id) if t_]
                    refills = tsucc and any(write_of(x) and write_of(x)[0] and write_of(x)[0][:2] == ("this", a_) for a_ in arrs
                                            for b_ in g.blocks.values() if g.dominates_block(tsucc[0], b_.id) for x in b_.nodes())
                    if not fld or not refills:
                        continue
                    want = (canon(rel[0]).split("#")[0], rel[1], canon(rel[2]).split("#")[0])
                    holds = False
                    pos = f.positions()
                    for r_ in [n for n in f.events()][-1:]:
                        pass
                    # facts at every exit: the relation must be implied on each path that reaches the exit
                    exit_preds = [b_ for b_ in f.blocks.values() if f.exit in b_.live_succs()]
                    holds = bool(exit_preds)
                    for b_ in exit_preds:
                        fs_ = list(flow.must_facts(f, b_.id))
                        fs_ += [(c_, t_) for s_, c_, t_ in f.branch_edges(b_.id) if s_ == f.exit and c_ is not None]
                        ok_b = False
                        for c_, t_ in fs_:
                            r2 = flow.fact_relation(c_, t_)
                            if r2 and (canon(r2[0]).split("#")[0], r2[1], canon(r2[2]).split("#")[0]) == want:
                                ok_b = True
                        if not ok_b:
                            # ... or the member was simply stored last: `_ctr = n;` makes `n <= _ctr` true
                            ws_ = [x for x in f.events() if write_of(x) and write_of(x)[0] == ("this", fld[0]) and x.kind == "BinaryOperator" and x.op == "="]
                            last_ = [x for x in ws_ if not any(f.reaches(x.id, y.id) for y in f.events()
                                                             if y.id != x.id and write_of(y) and write_of(y)[0] == ("this", fld[0]))]
                            ns_ = b_.nodes()
                            if last_ and rel[1] in ("<=", "==") and all(f.dominates_block(f.positions()[x.id][0], b_.id) for x in last_):
                                other_ = rel[0] if path(rel[2]) == ("this", fld[0]) else (rel[2] if rel[1] == "==" else None)
                                if other_ is not None and all(canon(std_unwrap(x.children[1])).split("#")[0] == canon(std_unwrap(other_)).split("#")[0] for x in last_):
                                    ok_b = True
                        holds = holds and ok_b
                    if not holds:
                        problems.append("operator() refills the state when %s %s %s, which is not established when seed() returns: "
                                        "the first draws after re-seeding come from the old state" % want)
            # ... and starts from nothing: no member is read (a compound assignment, or a member function that reads it)
            # before seed() has assigned it on that path -- re-seeding must not carry the old stream over
            byd_ = {g_.did: g_ for g_ in unit.functions}

            def reads_of(g_):
                out_ = set()
                for y in g_.all_nodes():
                    if y.kind == "MemberExpr" and path(y) and len(path(y)) >= 2 and path(y)[0] == "this" and path(y)[1] in fields:
                        par = g_.parent(y)
                        if par is not None and par.kind == "BinaryOperator" and par.op == "=" and par.children[0].id == y.id:
                            continue
                        out_.add(path(y)[1])
                return out_
            stale = set()

            def tr2(n, st):
                w = write_of(n)
                if n.kind == "CompoundAssignOperator" or (n.kind == "UnaryOperator" and n.op in ("++", "--")):
                    if w and w[0] and w[0][0] == "this" and len(w[0]) >= 2 and w[0][1] in fields and w[0][1] not in st:
                        stale.add(w[0][1])
                if n.kind in ("CXXMemberCallExpr", "CXXOperatorCallExpr") and n.callee and n.callee.get("did") in byd_ and not n.d.get("inlined"):
                    o = n.child("obj") if n.kind == "CXXMemberCallExpr" else (n.args[0] if n.args else None)
                    if o is not None and path(o) == ("this",):
                        for fld_ in reads_of(byd_[n.callee["did"]]):
                            if fld_ not in st:
                                stale.add(fld_)
                if w and n.kind in ("BinaryOperator", "CtorInit") and w[0] and w[0][0] == "this" and len(w[0]) >= 2 and w[0][1] in fields:
                    return [st | {w[0][1]}]
                return [st]
            flow.run(f, [frozenset()], tr2, None)
            if stale:
                problems.append("seed() reads member(s) %s before it has assigned them: a re-seeded generator continues from its old state" % sorted(stale))
            ctx.inst("I.seed-complete", f.sig, not problems, f.loc, "; ".join(problems) if problems else
                     "writes all of %s on every path%s" % (fields, "; refill condition of operator() holds at exit" if cls.endswith("mt19937") else ""), f)
    for f in unit.functions:
        if f.owner_cls == "frg::pcg_basic32" and f.name == "operator()" and len(f.params()) == 1:
            b = f.params()[0]["d"]
            rets = [r for r in f.return_nodes()]
            ok = False
            thr_node, thr_form, thr_bad = None, None, None
            for r in rets:
                v = r.child("val").strip()
                if v.kind == "BinaryOperator" and v.op == "%" and v.children[1].strip().kind == "DeclRefExpr" and v.children[1].strip().d["d"] == b:
                    rv = std_unwrap(v.children[0])
                    thr = False
                    for c, t in flow.facts_at(f, r.id):
                        rel = flow.fact_relation(c, t)
                        # threshold <= r
                        if rel and rel[1] == "<=" and std_unwrap(rel[2]).kind == "DeclRefExpr" and rv.kind == "DeclRefExpr" \
                                and std_unwrap(rel[2]).d["d"] == rv.d["d"]:
                            thr = True
                            thr_node = rel[0]
                    ok = thr
                    # the threshold is 2^32 mod bound: (N % bound) with N == -bound (mod 2^32), N linear in bound
                    if thr and thr_node is not None:
                        tv = std_unwrap(RA.resolve_local(f, thr_node))
                        hops = 0
                        while tv.kind in ("ImplicitCastExpr", "CStyleCastExpr", "CXXStaticCastExpr", "CXXFunctionalCastExpr", "ParenExpr") and tv.children and hops < 6:
                            tv, hops = std_unwrap(tv.children[0]), hops + 1
                        if tv.kind == "BinaryOperator" and tv.op == "%" and std_unwrap(tv.children[1]).kind == "DeclRefExpr" \
                                and std_unwrap(tv.children[1]).d["d"] == b:
                            lin = _linear_in(tv.children[0], b)
                            if lin is not None:
                                thr_form = "(%d*bound + %d) %% bound" % lin
                                if (lin[0] + 1) % (1 << 32) != 0 or lin[1] % (1 << 32) != 0:
                                    ok = False
                                    thr_bad = "the rejection threshold is %s, not 2^32 mod bound == (-bound) %% bound" % thr_form
            ctx.inst("T.prng-constants", f.sig, ok, f.loc, thr_bad or "returns r %% bound under r >= threshold: %s%s" % (
                ok, "; threshold %s" % thr_form if thr_form else ""), f)
    for f in unit.functions:
        if f.uq == "frg::insertion_sort":
            sw = [n for n in f.events() if n.is_call() and n.callee and n.callee["uq"] == "std::swap"]
            other = [n for n in f.events() if write_of(n) and n.kind != "DeclStmt" and write_of(n)[0] is not None
                     and n.children and n.children[0].strip().kind == "UnaryOperator" and n.children[0].strip().op == "*"]
            guarded = True
            for s_ in sw:
                g = False
                for cond, truth in flow.facts_at(f, s_.id):
                    c = cond.strip()
                    if truth and c.is_call() and not c.callee and len(c.args) == 2:
                        a0, a1 = canon(c.args[0]), canon(c.args[1])
                        s0, s1 = canon(s_.args[0]), canon(s_.args[1])
                        g = (a0, a1) == (s0, s1)
                guarded = guarded and g
            ctx.inst("E.sort-swaps-only", f.sig, bool(sw) and not other and guarded, f.loc,
                     "swap calls: %d, direct writes through iterators: %d, every swap guarded by comp(*i, *j): %s" % (len(sw), len(other), guarded), f)


def _loopvars(f):
    out = set()
    for blk in f.blocks.values():
        if blk.termkind == "ForStmt" and blk.cond is not None:
            c = f.node(blk.cond).strip()
            if c.kind == "BinaryOperator":
                l = c.children[0].strip()
                if l.kind == "DeclRefExpr":
                    out.add(l.d["d"])
    return out


# ---- array concatenation ------------------------------------------------------------------------------------------

def check_concat(ctx, unit):
    """array_concat: every helper that copies one input array into the result writes res[at + j] = other[j] for
    j in [0, extent(other)), and hands `at + extent(other)` on as the offset of the next piece (as the argument of the
    next helper call, or as its return value).  Decided in polynomial normal form over (at, loop variable)."""
    import re
    from .poly import Poly, to_poly
    ctx.rule("E.concat-offset", "array_concat: each piece is copied to res[at + j] for j in [0, extent of the piece) and the next "
             "piece starts at at + extent (offset arithmetic in polynomial normal form)", 2)
    top = unit.fns(uq="frg::array_concat")
    if not top:
        raise AnalysisBroken("anchor vanished: frg::array_concat instantiation")
    helpers = [f for f in unit.functions if f.uq.startswith("frg::details::") and f.blocks and len(f.params()) >= 3]
    helpers += [h for h in getattr(unit, "helpers", []) if h.uq.startswith("frg::details::") and len(h.params()) >= 3]
    n_copy = 0
    for f in helpers:
        ps = f.params()
        res = [p for p in ps if p["t"].startswith("frg::array<") and p["t"].endswith("&") and not p["t"].startswith("const")]
        if not res:
            continue
        resd = res[0]["d"]
        ats = [p["d"] for p in ps if re.match(r"^(size_t|unsigned long)$", p["t"])]
        inits = RA.local_inits(f)

        bm_ = f.bind_map()

        def base_leaf(x, depth=0):
            x = std_unwrap(x)
            if x.kind == "DeclRefExpr":
                d = x.d["d"]
                if d in bm_ and depth < 6:
                    # parameter of a folded helper (concat_copy(res, at, other)): what it is bound to
                    pv = to_poly(f.node(bm_[d]), lambda y: base_leaf(y, depth + 1))
                    if pv is not None:
                        return pv
                if d in inits and not RA._reassigned(f, d):
                    c = std_unwrap(inits[d]).cv()
                    if c is None:
                        c = inits[d].cv()               # (the constant may sit on the conversion around a variable template)
                    if c is None and x.d.get("cv") is not None:
                        c = x.cv()                      # (a constexpr local read as a constant)
                    if c is not None:
                        return Poly.const(c)
                    if depth < 6:
                        # `const size_t next = concat_copy(...)`: the value the folded helper returns
                        from .ir import value_leaves
                        lv = value_leaves(f, inits[d])
                        if len(lv) == 1 and inits[d].strip().d.get("inlined"):
                            pv = to_poly(lv[0], lambda y: base_leaf(y, depth + 1))
                            if pv is not None:
                                return pv
                return Poly.sym("v%d" % d)
            return None
        from .poly import lockstep_env
        _envs = {}

        def leaf(x):
            # running indices that advance in lock-step with the loop counter are expressed through it
            xs = std_unwrap(x)
            if xs.kind == "DeclRefExpr" and RA._reassigned(f, xs.d["d"]) or (xs.kind == "DeclRefExpr" and any(
                    n_.kind == "UnaryOperator" and n_.op in ("++", "--") and std_unwrap(n_.children[0]).kind == "DeclRefExpr"
                    and std_unwrap(n_.children[0]).d["d"] == xs.d["d"] for n_ in f.events())):
                # (only variables that are stepped INSIDE a loop run in lock-step with its counter; an offset that is
                # advanced between the loops -- `at = copy_one(res, at, part)` -- is followed by the offset analysis below)
                cyc_ = in_cycle_nodes(f)
                stepped_in_loop = any(
                    n_.id in cyc_ and n_.kind in ("UnaryOperator", "BinaryOperator", "CompoundAssignOperator") and n_.children
                    and std_unwrap(n_.children[0]).kind == "DeclRefExpr" and std_unwrap(n_.children[0]).d["d"] == xs.d["d"]
                    and (n_.kind != "BinaryOperator" or n_.op == "=") for n_ in f.events())
                if stepped_in_loop:
                    key = xs.id
                    if key not in _envs:
                        _envs[key] = lockstep_env(f, xs, base_leaf)
                    if xs.d["d"] in _envs[key]:
                        return _envs[key][xs.d["d"]]
            return base_leaf(x)
        problems = []
        stores = []
        for n in f.events():
            if n.kind == "BinaryOperator" and n.op == "=":
                l, r = std_unwrap(n.children[0]), std_unwrap(n.children[1])
                if l.kind == "CXXOperatorCallExpr" and l.callee and l.callee.get("op") == "[]" and std_unwrap(l.args[0]).kind == "DeclRefExpr" \
                        and std_unwrap(l.args[0]).d["d"] == resd and r.kind == "CXXOperatorCallExpr" and r.callee and r.callee.get("op") == "[]":
                    stores.append((n, l, r))
        if not stores:
            continue
        if len(ats) != 1:
            problems.append("cannot identify the offset parameter")
            atd = None
        else:
            atd = ats[0]
        # input pieces in parameter order, with their extents
        pieces = []
        for p_ in ps:
            m = re.search(r"^const frg::array<.*, (\d+)(UL)?> &$", p_["t"])
            if m and p_["d"] != resd:
                pieces.append((p_["d"], int(m.group(1))))
        pidx = {d: k for k, (d, _) in enumerate(pieces)}
        # the offset parameter may be advanced in place between the pieces (`at += n;` after each copy loop): its value
        # relative to its value on entry, at every element outside loops
        at_off = {}
        if atd is not None:
            cyc = in_cycle_nodes(f)

            def tr(n, st):
                at_off.setdefault(n.id, set()).add(st)
                if n.id in cyc or st is None:
                    return [st]
                if n.kind == "CompoundAssignOperator" and n.op in ("+=", "-=") and std_unwrap(n.children[0]).kind == "DeclRefExpr" \
                        and std_unwrap(n.children[0]).d["d"] == atd:
                    c = base_leaf(n.children[1])
                    c = c.t.get((), None) if c is not None and all(k == () for k in c.t) else (0 if c is not None and not c.t else None)
                    return [None if c is None else (st + c if n.op == "+=" else st - c)]
                if n.kind == "BinaryOperator" and n.op == "=" and std_unwrap(n.children[0]).kind == "DeclRefExpr" \
                        and std_unwrap(n.children[0]).d["d"] == atd:
                    pv = to_poly(n.children[1], base_leaf)
                    if pv is None:
                        from .ir import value_leaves as _vl2
                        lv_ = _vl2(f, n.children[1])        # `at = copy_one(res, at, part)`: what the folded helper returns
                        if len(lv_) == 1:
                            pv = to_poly(lv_[0], base_leaf)
                    if pv is not None:
                        rest = pv - Poly.sym("v%d" % atd)
                        if all(k == () for k in rest.t):
                            return [st + rest.t.get((), 0)]
                    return [None]
                return [st]
            flow.run(f, [0], tr, None)

        def shifted(pv, node):
            """pv with the offset parameter replaced by (entry value + what was added to it before `node`)."""
            offs = at_off.get(node.id, {0})
            if pv is None or len(offs) != 1 or None in offs:
                return None
            return _subst(pv, "v%d" % atd, Poly.sym("v%d" % atd) + Poly.const(next(iter(offs)))) if atd is not None else pv
        copied = set()
        ext = None
        for (n, l, r) in stores:
            n_copy += 1
            src = std_unwrap(r.args[0])
            if not (src.kind == "DeclRefExpr" and src.d["d"] in pidx):
                problems.append("source of the copy at %s is not an input array parameter" % n.loc)
                continue
            k = pidx[src.d["d"]]
            ext = pieces[k][1]
            copied.add(k)
            before = sum(e for (_, e) in pieces[:k])
            pi, pj = shifted(to_poly(l.args[1], leaf), n), to_poly(r.args[1], leaf)
            want = None if atd is None or before is None else Poly.sym("v%d" % atd) + Poly.const(before)
            if pi is None or pj is None or want is None or not (pi - pj == want):
                problems.append("copy at %s writes res[%s] from piece #%d [%s]: destination is not at + (extents of the pieces before it) + source index" % (
                    n.loc, canon(l.args[1]), k + 1, canon(r.args[1])))
            # source index is a loop variable bounded by the extent
            jv = std_unwrap(r.args[1])
            bounded = False
            for cond, truth in flow.facts_at(f, n.id):
                rel = flow.fact_relation(cond, truth)
                if rel and rel[1] in ("<", "!=") and std_unwrap(rel[0]).kind == "DeclRefExpr" and jv.kind == "DeclRefExpr" and std_unwrap(rel[0]).d["d"] == jv.d["d"]:
                    b = to_poly(rel[2], leaf)
                    if b == Poly.const(ext) and (rel[1] == "<" or _counts_up_from_zero(f, jv.d["d"])):
                        bounded = True
            if not bounded:
                problems.append("copy loop at %s is not bounded by the extent %s of the piece" % (n.loc, ext))
        # continuation offsets
        conts = []
        for n in f.events():
            if n.is_call() and n.kind == "CallExpr" and n.callee and n.callee["uq"].startswith("frg::details::") and n.args \
                    and std_unwrap(n.args[0]).kind == "DeclRefExpr" and std_unwrap(n.args[0]).d["d"] == resd and len(n.args) >= 2 \
                    and not n.d.get("inlined"):
                conts.append((n, n.args[1]))
        for r_ in f.return_nodes():
            if r_.child("val") is not None:
                conts.append((r_, r_.child("val")))
        done = sum(pieces[k][1] for k in copied)
        if not conts and copied != set(range(len(pieces))):
            problems.append("the offset of the next piece is neither passed on nor returned, and pieces %s are not copied here" % sorted(
                set(range(1, len(pieces) + 1)) - {k + 1 for k in copied}))
        for (n, e) in conts:
            pe = shifted(to_poly(e, leaf), n)
            if atd is None or pe is None or not (pe == Poly.sym("v%d" % atd) + Poly.const(done)):
                problems.append("next piece starts at %s (at %s), expected at + %s" % (canon(e), n.loc, done))
        ctx.inst("E.concat-offset", f.sig, not problems, f.loc, "; ".join(problems[:3]) if problems else
                 "res[at + j] = piece[j], j < %s; next offset at + %s" % (ext, ext), f)
    if n_copy < 2:
        raise AnalysisBroken("anchor vanished: copy loops of array_concat's helpers (found %d)" % n_copy)
    for f in top[:1]:
        starts = [n for n in f.events() if n.is_call() and n.kind == "CallExpr" and n.callee and n.callee["uq"].startswith("frg::details::") and len(n.args) >= 2]
        def zero(x):
            x = std_unwrap(x)
            if x.kind == "DeclRefExpr" and x.d["d"] in RA.local_inits(f):
                x = std_unwrap(RA.local_inits(f)[x.d["d"]])
            return x.cv() == 0
        ok = bool(starts) and zero(starts[0].args[1])
        ctx.inst("E.concat-offset", "frg::array_concat: first piece", ok, f.loc, "first piece starts at offset 0: %s" % ok, f)


def _diff_nonneg(f, sub, inits):
    """`A - B` cannot go below zero because a dominating branch decision says so, compared as linear forms after
    expanding once-initialised locals (`const size_t from = i - wshift;` ... `from - 1` under `i > wshift`): the
    difference minus some established non-negative form `b - a [- 1]` is a non-negative constant."""
    from .poly import Poly, to_poly

    def leaf(x, depth=0):
        x = x.strip()
        if x.kind == "DeclRefExpr" and x.get("local"):
            d = x.d["d"]
            if d in inits and not RA._reassigned(f, d) and depth < 6:
                r = to_poly(inits[d], lambda y: leaf(y, depth + 1))
                if r is not None:
                    return r
            return Poly.sym("v#%d" % d)
        p_ = path(x)
        if p_:
            return Poly.sym(".".join(p_))
        return Poly.sym("e:" + canon(x))
    T = to_poly(sub.children[0], leaf)
    B = to_poly(sub.children[1], leaf)
    if T is None or B is None:
        return False
    T = T - B

    def const_nonneg(p):
        return all(k == () for k in p.t) and p.t.get((), 0) >= 0
    if const_nonneg(T):
        return True
    for cond, truth in flow.facts_at(f, sub.id):
        rel = flow.fact_relation(cond, truth)
        if rel is None:
            continue
        a, op, b = rel
        pa, pb = to_poly(a, leaf), to_poly(b, leaf)
        if pa is None or pb is None:
            continue
        forms = []
        if op == "<":
            forms.append(pb - pa - Poly.const(1))
        elif op == "<=":
            forms.append(pb - pa)
        elif op == "==":
            forms += [pb - pa, pa - pb]
        for F in forms:
            if const_nonneg(T - F):
                return True
    return False


def _subst(p, sym, repl):
    from .poly import Poly
    out = Poly()
    for k, v in p.t.items():
        term = Poly.const(v)
        for x in k:
            term = term * (repl if x == sym else Poly.sym(x))
        out = out + term
    return out


def in_cycle_nodes(f):
    from .rules_own import in_cycle_blocks
    cyc = in_cycle_blocks(f)
    return {n.id for b in cyc for n in f.blocks[b].nodes()}


def _counts_up_from_zero(f, did):
    """local `did` is a loop counter that starts at 0 and is only ever incremented by one (so `i != N` is `i < N`)."""
    from .rules_own import for_loops
    for lp in for_loops(f):
        if lp.ivar == did:
            st = lp.step_of()
            if st is not None and st[0] == "++" and lp.start is not None and lp.start.strip().cv() == 0:
                return True
    return False



def _linear_in(x, did, depth=0):
    """(a, c) with x == a*v + c as integers (before any reduction), v the variable `did`; None if x is not of that form"""
    x = std_unwrap(x)
    hops = 0
    while x.kind in ("ImplicitCastExpr", "CStyleCastExpr", "CXXStaticCastExpr", "CXXFunctionalCastExpr", "ParenExpr") and x.children and hops < 6:
        x, hops = std_unwrap(x.children[0]), hops + 1
    if depth > 12:
        return None
    if x.kind == "DeclRefExpr" and x.d.get("d") == did:
        return (1, 0)
    c = x.cv()
    if c is not None:
        return (0, c)
    if x.kind == "UnaryOperator" and x.op in ("-", "~", "+") and x.children:
        l = _linear_in(x.children[0], did, depth + 1)
        if l is None:
            return None
        return {"-": (-l[0], -l[1]), "~": (-l[0], -l[1] - 1), "+": l}[x.op]
    if x.kind == "BinaryOperator" and x.op in ("+", "-") and len(x.children) == 2:
        l, r = _linear_in(x.children[0], did, depth + 1), _linear_in(x.children[1], did, depth + 1)
        if l is None or r is None:
            return None
        return (l[0] + r[0], l[1] + r[1]) if x.op == "+" else (l[0] - r[0], l[1] - r[1])
    return None


def check_minmax(ctx, unit, rule="E.minmax-tie"):
    """frg::min / frg::max against std::min / std::max, which are specified through operator< alone: max(a, b) is b exactly
    where a < b holds and a otherwise; min(a, b) is b exactly where b < a holds and a otherwise.  Where neither argument is
    less than the other (equivalent records, an unordered pair) both return their FIRST argument.  Decided on the
    instantiations for int and for a class type from the facts under which each argument is returned."""
    from .ir import exit_values
    ctx.rule(rule, "frg::max(a, b) returns b exactly under a < b and frg::min(a, b) returns b exactly under b < a: on a tie both "
             "return their first argument, as std::min/std::max do", 4)
    fns = [f for f in unit.functions if f.uq in ("frg::min", "frg::max") and f.blocks and len(f.params()) == 2]
    if len(fns) < 4:
        raise AnalysisBroken("anchor vanished: instantiations of frg::min/frg::max (found %d)" % len(fns))
    for f in fns:
        a, b = f.params()[0]["d"], f.params()[1]["d"]
        want = (a, b) if f.name == "max" else (b, a)       # the `<` whose truth selects b

        def less(c):
            """(lhs did, rhs did, negated) if c is [!]* (x < y) on the two parameters"""
            c, neg = std_unwrap(c), False
            while c.kind == "UnaryOperator" and c.op == "!" and c.children:
                c, neg = std_unwrap(c.children[0]), not neg
            ops = None
            if c.kind == "BinaryOperator" and c.op == "<":
                ops = c.children
            elif c.kind == "CXXOperatorCallExpr" and c.callee and c.callee.get("op") == "<" and len(c.args) == 2:
                ops = c.args
            if ops is None:
                return None
            ds = [std_unwrap(o) for o in ops]
            if all(o.kind == "DeclRefExpr" for o in ds):
                return (ds[0].d["d"], ds[1].d["d"], neg)
            return None
        problems, n = [], 0

        def judge(v, facts, loc):
            nonlocal n
            v = std_unwrap(v)
            if v.kind == "ConditionalOperator" and len(v.children) == 3:
                judge(v.children[1], facts + [(v.children[0], True)], loc)
                judge(v.children[2], facts + [(v.children[0], False)], loc)
                return
            if v.kind != "DeclRefExpr" or v.d.get("d") not in (a, b):
                problems.append("returns something other than one of its arguments at %s" % loc)
                return
            n += 1
            known = None
            for c, t in facts:
                l = less(c)
                if l is None:
                    if c is not None and any(x.kind == "DeclRefExpr" and x.d.get("d") in (a, b) for x in c.walk()):
                        problems.append("decides with %s, not with operator< alone" % canon(std_unwrap(c)).replace("#%d" % a, "").replace("#%d" % b, ""))
                    continue
                if (l[0], l[1]) == want:
                    known = (t != l[2])
                else:
                    problems.append("decides with the comparison in the other direction: on a tie the second argument is returned")
            if v.d["d"] == b and known is not True:
                problems.append("returns its second argument without %s known" % ("a < b" if f.name == "max" else "b < a"))
            if v.d["d"] == a and known is not False and known is not None:
                problems.append("returns its first argument although the second one was found %s" % ("greater" if f.name == "max" else "less"))
        for anc, v in exit_values(f):
            if v is not None:
                judge(v, list(flow.facts_at(f, anc.id)), anc.loc)
        ctx.inst(rule, "%s<%s>" % (f.uq, (f.get("targs") or "").strip("<>")), not problems and n >= 2, f.loc,
                 "; ".join(sorted(set(problems))[:2]) if problems else "%d returns, the second argument only under the strict comparison" % n, f)
