"""Slab pool, value/provenance rules: C01 (frame look-up, carving), C02 (realloc/free protocol,
footprint precondition), C03 (map/unmap provenance, accounting, poison typestate)."""
import re
from .ir import path, canon, std_unwrap, AnalysisBroken
from . import flow
from . import rules_atomic as RA
from .rules_guard import write_of
from .rules_slab import pool_fns, pool_instantiations, policy_classes, is_policy_call, POOL, _lockey

M64 = (1 << 64) - 1


def _byname(fns):
    d = {}
    for f in fns:
        d.setdefault(f.name, []).append(f)
    return d


def _strip_ids(s):
    return re.sub(r"#\d+", "", s)


def _cp(fn, n, inits=None):
    """canon with once-initialised locals expanded (copy propagation)."""
    inits = inits if inits is not None else RA.local_inits(fn)
    env = {}
    for did, init in inits.items():
        if not RA._reassigned(fn, did):
            env[did] = None
    # iterative expansion
    def expand(x, depth=0):
        x = std_unwrap(x)
        if depth < 6 and x.kind == "DeclRefExpr" and x.get("local") and x.d["d"] in env and x.d["d"] in inits:
            return expand(inits[x.d["d"]], depth + 1)
        return x
    def rec(x, depth=0):
        x = expand(x)
        if depth > 30:
            return "?"
        k = x.kind
        if k in ("BinaryOperator",):
            return "(%s %s %s)" % (x.op, rec(x.children[0], depth + 1), rec(x.children[1], depth + 1))
        if k == "UnaryOperator":
            return "(%s %s)" % (x.op, rec(x.children[0], depth + 1))
        if k in ("CStyleCastExpr", "CXXStaticCastExpr", "CXXReinterpretCastExpr", "ImplicitCastExpr", "CXXFunctionalCastExpr") and x.children:
            return rec(x.children[0], depth + 1)
        return _strip_ids(canon(x))
    return rec(n)


def frame_lookups(fn):
    """DeclStmts / expressions computing the frame pointer from a user pointer: reinterpret_cast<frame*>(X & K)."""
    out = []
    for n in fn.all_nodes():
        if n.kind == "CXXReinterpretCastExpr" and (n.get("prt") or "").endswith("::frame"):
            inner = n.children[0].strip() if n.children else None
            if inner is not None and not (inner.kind == "BinaryOperator" and inner.op == "&"):
                # the masking may sit in a folded helper (frame_address_of_(address)): look at what the helper returns
                from .ir import value_leaves
                lv = [x for x in value_leaves(fn, n.children[0])]
                if len(lv) == 1:
                    inner = lv[0].strip()
                    hops = 0
                    while inner.kind in ("ImplicitCastExpr", "ParenExpr", "CStyleCastExpr", "CXXStaticCastExpr") and inner.children and hops < 6:
                        inner, hops = inner.children[0].strip(), hops + 1
            if inner is not None and inner.kind == "BinaryOperator" and inner.op == "&":
                out.append((n, inner))
    return out


def check_C01(ctx, unit):
    from .rules_own import check_typelevel
    ctx.rule("W2.size-classes", "slab size classes (compiler-evaluated static_asserts over the pool's own constexpr functions, "
             "three configurations): every size 1..max maps to an in-range class that is big enough and the smallest such; "
             "classes are increasing powers of two >= 8; frame geometry fields are const", 5)
    check_typelevel(ctx, "W2.size-classes", "slab", 5, unit="typelevel_slab")
    ctx.rule("E.frame-lookup", "realloc, free, deallocate and get_size find the frame by one expression, ((address-1) & ~(A-1)), "
             "and A is the alignment both constructors place the frame at (A == sb_size)", 4)
    ctx.rule("E.carving", "_construct_slab: the first object offset grows only in steps of the item size until it covers the "
             "header; the frame records (address+overhead, slabsize-overhead, index); objects are carved at address+off for "
             "off = 0, item_size, ... < length; the item size is bucket_to_size(index)", 3)
    ctx.rule("E.handed-out", "allocate() returns the popped free-list head (small) or the frame's object address (large) and "
             "get_size() reports bucket_to_size(frame index) / the frame length", 3)
    ctx.rule("N.min-size", "a zero-length request is raised to one byte before the size class is computed", 1)
    for inst in pool_instantiations(unit):
        fns = pool_fns(unit, inst)
        bn = _byname(fns)
        recs = [r for r in unit.records if r["qn"] == inst]
        tag = inst[len(POOL):]
        # frame look-ups
        shapes = {}
        aligns = set()
        minus1_bad = {}
        for name in ("realloc", "free", "deallocate", "get_size"):
            for f in bn.get(name, []):
                lk = frame_lookups(f)
                if len(lk) != 1:
                    raise AnalysisBroken("anchor vanished: frame look-up in %s (found %d)" % (f.qn, len(lk)))
                n, inner = lk[0]
                shape = _cp(f, inner)
                shapes[name] = shape
                # the masked operand is (block address) - 1: a large block sits huge_padding behind its frame, and the
                # static_asserts admit huge_padding == sb_size (one-page superblocks): rounding the address itself down
                # then lands on the block, not on the frame
                pids = {p_["d"] for p_ in f.params() if p_["t"].rstrip().endswith("*")}

                def leaf(x, f=f, pids=pids, depth=0):
                    from .poly import Poly, to_poly
                    bm_ = f.bind_map()

                    def thru(y):
                        y = std_unwrap(RA.resolve_local(f, std_unwrap(y)))
                        h_ = 0
                        while y.kind == "DeclRefExpr" and y.d.get("d") in bm_ and h_ < 8:      # parameter of a folded helper
                            y, h_ = std_unwrap(RA.resolve_local(f, std_unwrap(f.node(bm_[y.d["d"]])))), h_ + 1
                        return y
                    x = thru(x)
                    hops = 0
                    while x.kind in ("CStyleCastExpr", "CXXStaticCastExpr", "CXXReinterpretCastExpr", "ImplicitCastExpr",
                                     "CXXFunctionalCastExpr", "ParenExpr") and x.children and hops < 8:
                        x, hops = thru(x.children[0]), hops + 1
                    if x.kind == "DeclRefExpr" and x.d["d"] in pids:
                        return Poly.sym("p")
                    if x.kind == "BinaryOperator" and x.op in ("+", "-", "*"):
                        return to_poly(x, leaf)
                    return Poly.sym("?" + canon(x)[:30])
                from .poly import Poly, to_poly
                op_ = to_poly(inner.children[0], leaf)
                if op_ is None or not (op_ == Poly.sym("p") - Poly.const(1)):
                    minus1_bad[name] = str(op_)
                k = inner.children[1].strip().cv()
                if k is not None:
                    aligns.add(((~k) & M64) + 1)
        # constructors
        calign = set()
        for name in ("_construct_slab", "_construct_large"):
            for f in bn.get(name, []):
                pol = policy_classes(unit)
                maps = [n for n in f.events() if is_policy_call(n, pol, ("map",))]
                for m in maps:
                    if len(m.args) == 2:
                        calign.add(m.args[1].strip().cv())
                    else:
                        # address = (sb_base + A - 1) & ~(A - 1)
                        found = False
                        for x in f.events():
                            if x.kind == "BinaryOperator" and x.op == "&":
                                k = x.children[1].strip().cv()
                                l = x.children[0].strip()
                                if k is not None and l.kind == "BinaryOperator" and l.op in ("+", "-"):
                                    a = ((~k) & M64) + 1
                                    add = l.children[1].strip().cv()
                                    ll = l.children[0].strip()
                                    if add is None and ll.kind == "BinaryOperator":
                                        add = None
                                    # (sb_base + sb_size) - 1  or  sb_base + (sb_size - 1)
                                    tot = _const_offset(l)
                                    if tot == a - 1:
                                        calign.add(a)
                                        found = True
                                    else:
                                        calign.add(("misaligned", a, tot))
                        if not found and not calign:
                            calign.add("unknown")
        same = len(set(shapes.values())) == 1 and len(shapes) == 4
        sb = None
        ok_align = len(aligns) == 1 and calign == aligns
        for name in sorted(shapes):
            ctx.inst("E.frame-lookup", "%s::%s%s" % (POOL, name, tag), same and ok_align and name not in minus1_bad, bn[name][0].loc,
                     ("the masked operand is %s, not (block address) - 1: a large block that starts exactly on a superblock "
                      "boundary (huge_padding == sb_size is admitted by the static_asserts) is looked up in itself; " % minus1_bad[name]
                      if name in minus1_bad else "") +
                     "look-up %s; alignment used by look-ups %s, by the constructors %s" % (shapes[name], sorted(aligns), sorted(calign, key=str)),
                     bn[name][0])
        # carving (all roles are bound structurally, never by local name)
        for f in bn.get("_construct_slab", []):
            inits = RA.local_inits(f)
            problems = []
            idxp = [p["d"] for p in f.params()]
            news = [n for n in f.events() if n.kind == "CXXNewExpr" and n.get("placement")]
            fr = [n for n in news if (n.get("allocrt") or "").endswith("::slab_frame")]
            fl = [n for n in news if (n.get("allocrt") or "").endswith("::freelist")]
            if len(fr) != 1 or not fl:
                raise AnalysisBroken("anchor vanished: slab_frame / freelist placement in _construct_slab (%d, %d)" % (len(fr), len(fl)))
            ce = fr[0].child("init")
            ce = ce.strip() if ce is not None else None
            a = ce.args if ce is not None else []
            pa = std_unwrap(f.node(fr[0].get("pargs")[0]))       # where the frame is placed
            if pa.kind != "DeclRefExpr":
                problems.append("frame placed at %s, not at a local holding the aligned address" % canon(pa))
            ov = item = None
            if len(a) != 3:
                problems.append("slab_frame constructed with %d arguments" % len(a))
            else:
                a0, a1, a2 = (std_unwrap(x) for x in a)
                # a0 = placement address + overhead
                if a0.kind == "BinaryOperator" and a0.op == "+":
                    l, r = std_unwrap(a0.children[0]), std_unwrap(a0.children[1])
                    for x, y in ((l, r), (r, l)):
                        if x.kind == "DeclRefExpr" and pa.kind == "DeclRefExpr" and x.d["d"] == pa.d["d"] and y.kind == "DeclRefExpr":
                            ov = y.d["d"]
                if ov is None:
                    problems.append("frame address argument %s is not (placement address + overhead local)" % _strip_ids(canon(a0)))
                else:
                    ok1 = a1.kind == "BinaryOperator" and a1.op == "-" and a1.children[0].strip().cv() is not None and \
                        std_unwrap(a1.children[1]).kind == "DeclRefExpr" and std_unwrap(a1.children[1]).d["d"] == ov
                    if not ok1:
                        problems.append("frame length argument %s is not (slabsize - overhead)" % _strip_ids(canon(a1)))
                if not (a2.kind == "DeclRefExpr" and a2.d["d"] in idxp):
                    problems.append("frame index argument is %s, not the index parameter" % _strip_ids(canon(a2)))
            if ov is not None:
                # the overhead may be computed by a folded helper and only held in the local that is used here
                from .ir import value_leaves as _vl
                hops_ = 0
                while ov in inits and not RA._reassigned(f, ov) and hops_ < 4:
                    ls_ = _vl(f, inits[ov])
                    if len(ls_) == 1 and std_unwrap(ls_[0]).kind == "DeclRefExpr" and std_unwrap(ls_[0]).get("local") \
                            and std_unwrap(ls_[0]).d["d"] != ov:
                        ov, hops_ = std_unwrap(ls_[0]).d["d"], hops_ + 1
                    else:
                        break
                zero_init = (ov in inits and inits[ov].strip().cv() == 0) or any(
                    x.kind == "BinaryOperator" and x.op == "=" and std_unwrap(x.children[0]).kind == "DeclRefExpr"
                    and std_unwrap(x.children[0]).d["d"] == ov and x.children[1].strip().cv() == 0 for x in f.events())
                if not zero_init or (ov in inits and inits[ov].strip().cv() not in (0, None)):
                    problems.append("overhead does not start at 0 (it must stay a multiple of the item size)")
                for x in f.all_nodes():
                    if x.kind in ("CompoundAssignOperator", "BinaryOperator", "UnaryOperator") and x.get("op") in ("+=", "-=", "=", "++", "--", "*="):
                        l = x.children[0].strip()
                        if l.kind == "DeclRefExpr" and l.d["d"] == ov:
                            r = std_unwrap(x.children[1]) if len(x.children) > 1 else None
                            if x.op == "+=" and r is not None and r.kind == "DeclRefExpr":
                                item = r.d["d"] if item in (None, r.d["d"]) else item
                            elif x.op == "=" and r is not None and r.cv() == 0:
                                pass        # (re)initialisation to zero
                            else:
                                problems.append("overhead modified by %s at %s" % (_strip_ids(canon(x)), x.loc))
                hdr_loop = False
                # size of the object that is constructed at the start of the slab (from the record layout, not from the
                # spelling of the sizeof in the loop)
                hdr_rec = [r for r in unit.records if r["qn"] == (fr[0].get("alloct") or "")]
                hdr_size = hdr_rec[0].get("size") if hdr_rec else None
                if hdr_size is None:
                    raise AnalysisBroken("anchor vanished: size of the slab header record %s" % fr[0].get("allocrt"))
                for nl_ in flow.natural_loops(f):
                    cnd = nl_.cond
                    if cnd is None:
                        continue
                    rel = flow.fact_relation(cnd, True)       # the loop continues while this holds
                    if rel is None:
                        continue
                    a_, op_, b_ = rel
                    if std_unwrap(a_).kind == "DeclRefExpr" and std_unwrap(a_).d["d"] == ov and std_unwrap(b_).cv() is not None and op_ in ("<", "<="):
                        hdr_loop = True
                        reach = std_unwrap(b_).cv() + (1 if op_ == "<=" else 0)     # smallest overhead at which the loop stops
                        if reach < hdr_size:
                            problems.append("the header loop stops once overhead >= %d, but the slab header (%s) occupies %d bytes: the first "
                                            "objects overlap the header" % (reach, (fr[0].get("allocrt") or "").split("::")[-1], hdr_size))
                if not hdr_loop:
                    problems.append("no loop growing overhead until it covers sizeof(slab_frame)")
                if item is None:
                    problems.append("overhead is not grown in steps of a local item size")
                else:
                    ii = std_unwrap(inits[item]) if item in inits else None
                    if not (ii is not None and ii.is_call() and ii.callee and ii.callee["n"] == "bucket_to_size" and ii.args
                            and std_unwrap(ii.args[0]).kind == "DeclRefExpr" and std_unwrap(ii.args[0]).d["d"] in idxp):
                        problems.append("item size is not bucket_to_size(index parameter)")
            # the variable bound to the new frame
            slbv = None
            for x in f.all_nodes():
                if x.kind == "DeclStmt":
                    for d in x.get("decls", []):
                        if "init" in d and f.node(d["init"]).strip().id == fr[0].id:
                            slbv = d["d"]
            from .rules_own import for_loops
            okc = False
            for lp in for_loops(f):
                st = lp.step_of()
                if all(lp.contains(n) for n in fl) and lp.ivar is not None:
                    step_ok = st is not None and st[0] == "+=" and std_unwrap(st[1]).kind == "DeclRefExpr" \
                        and std_unwrap(st[1]).d["d"] == item
                    bp = path(RA.resolve_local(f, lp.bound, inits)) if lp.bound is not None else None
                    # the loop must continue only while the WHOLE object fits: off + item_size <= frame.length.
                    # (`off < length` is enough only if length is a multiple of the item size, which nothing guarantees:
                    # slabsize need only be a multiple of the page size.)
                    bound_is_len = bool(bp) and bp[-1] == "length" and slbv is not None and bp[0].endswith("#%d" % slbv)
                    offv = std_unwrap(lp.offset) if lp.offset is not None else None
                    off_is_item = offv is not None and ((offv.kind == "DeclRefExpr" and offv.d["d"] == item) or (
                        item in inits and canon(RA.resolve_local(f, offv, inits)) == canon(RA.resolve_local(f, inits[item], inits))))
                    bound_ok = bound_is_len and off_is_item and lp.op == "<="
                    if bound_is_len and not bound_ok:
                        problems.append("the carving loop runs while %s %s frame.length: an object is placed whenever its START lies inside "
                                        "the slab, so the last object sticks out when (slabsize - overhead) is not a multiple of the item "
                                        "size; it must run while off + item_size <= frame.length" % (
                                            "off" if lp.offset is None else "off + " + _strip_ids(canon(lp.offset)), lp.op))
                    wh = std_unwrap(RA.resolve_local(f, f.node(fl[0].get("pargs")[0]), inits))
                    where_ok = False
                    if wh.kind == "BinaryOperator" and wh.op == "+":
                        ops = [std_unwrap(RA.resolve_local(f, x, inits)) for x in wh.children]
                        for x, y in ((ops[0], ops[1]), (ops[1], ops[0])):
                            px = path(x)
                            if px and px[-1] == "address" and slbv is not None and px[0].endswith("#%d" % slbv) and y.kind == "DeclRefExpr" and y.d["d"] == lp.ivar:
                                where_ok = True
                    if step_ok and bound_ok and where_ok and lp.start_canon() == "0":
                        okc = True
                    else:
                        problems.append("carving loop: starts at %s (want 0); step by item size: %s; runs while off + item_size <= frame.length: %s; "
                                        "objects at frame.address + off: %s" % (lp.start_canon(), step_ok, bound_ok, where_ok))
            if not okc and not any("carving loop" in p for p in problems):
                problems.append("no carving loop placing freelist nodes found")
            ctx.inst("E.carving", "%s::_construct_slab%s" % (POOL, tag), not problems, f.loc,
                     "; ".join(problems) if problems else "overhead = k*item_size >= sizeof(header); frame(address+overhead, slabsize-overhead, index); objects at address+off, off += item_size", f)
        # handed out
        for f in bn.get("allocate", []):
            from .ir import value_leaves
            rets = []
            from .ir import exit_values as _ev
            for r0, v0 in _ev(f):          # (a result variable of a single-exit path is read as the values that reach the exit)
                for lv in value_leaves(f, v0):
                    if not lv.get("nullc") and lv.kind != "CXXNullPtrLiteralExpr" and not _is_nullish(lv):
                        rets.append((r0, lv))
            problems = []
            kinds = set()
            for r, lv in rets:
                v = std_unwrap(lv)
                if v.kind == "DeclRefExpr" and v.get("local") and "freelist" in (v.get("t") or ""):
                    kinds.add("small")
                    # every value that can reach the returned variable is a read of <frame>->available
                    inits_ = RA.local_inits(f)
                    todo, seen = [v.d["d"]], set()
                    while todo:
                        dd = todo.pop()
                        if dd in seen:
                            continue
                        seen.add(dd)
                        srcs = []
                        if dd in inits_:
                            srcs.append(inits_[dd])
                        for x in f.all_nodes():
                            if x.kind == "BinaryOperator" and x.op == "=":
                                l = x.children[0].strip()
                                if l.kind == "DeclRefExpr" and l.d["d"] == dd:
                                    srcs.append(x.children[1])
                        for sv in srcs:
                            u_ = std_unwrap(sv)
                            p = path(u_)
                            if p and p[-1] == "available":
                                continue
                            if u_.kind == "DeclRefExpr" and u_.get("local"):
                                todo.append(u_.d["d"])
                                continue
                            problems.append("the returned block can come from %s at %s" % (_strip_ids(canon(u_)), sv.loc))
                elif path(v) and path(v)[-1] == "available":
                    kinds.add("small")          # (the definitions of the returned variable, each a read of <frame>->available)
                elif path(v) and path(v)[-1] == "address":
                    kinds.add("large")
                elif path(_res(f, v)) and path(_res(f, v))[-1] == "address":
                    kinds.add("large")          # (held in a named local first)
                else:
                    problems.append("returns %s at %s" % (canon(v), r.loc))
            if kinds != {"small", "large"}:
                problems.append("return kinds %s" % sorted(kinds))
            ctx.inst("E.handed-out", "%s::allocate%s" % (POOL, tag), not problems, f.loc,
                     "; ".join(problems) if problems else "small path returns the popped list head, large path the frame's object address", f)
        for f in bn.get("get_size", []):
            from .ir import value_leaves
            from .ir import exit_values as _ev2
            vals = sorted({_usable_size_shape(f, lv) for r, v0 in _ev2(f) if v0 is not None
                           for lv in value_leaves(f, v0)})
            ok = vals == sorted(["0", "bucket_to_size(<frame>.index)", "<frame>.length"])
            ctx.inst("E.handed-out", "%s::get_size%s" % (POOL, tag), ok, f.loc, "returns %s" % vals, f)
        for f in bn.get("allocate", []):
            lp = [p["d"] for p in f.params()]
            uses = [n for n in f.events() if n.is_call() and n.callee and n.callee["n"] == "size_to_bucket"]
            if not uses:
                raise AnalysisBroken("anchor vanished: size_to_bucket call in allocate")

            def transfer(n, s):
                w = write_of(n)
                if w and w[0] and len(w[0]) == 1 and w[0][0].endswith("#%d" % lp[0]) and w[1] is not None:
                    c = w[1].strip().cv()
                    return ["pos" if (c is not None and c > 0) else "any"]
                if n.id == uses[0].id and s != "pos":
                    bad.append(n.loc)
                return [s]

            def refine(cond, truth, s):
                box = [s]

                def assume(a, v):
                    a = a.strip()
                    if a.kind == "DeclRefExpr" and a.d["d"] == lp[0] and v:
                        box[0] = "pos"
                flow.refine_bool(cond, truth, lambda a: None, assume)
                return [box[0]]
            bad = []
            flow.run(f, ["any"], transfer, refine)
            ctx.inst("N.min-size", "%s::allocate%s" % (POOL, tag), not bad, uses[0].loc,
                     "length is known >= 1 when the size class is computed: %s" % (not bad), f)


def _usable_size_shape(fn, n):
    """Shape of an expression denoting a block's usable size, independent of local names:
    bucket_to_size(<frame>.index), <frame>.length, a constant, or the canonical text otherwise."""
    inits = RA.local_inits(fn)
    x = std_unwrap(n)
    hops = 0
    while x.kind == "DeclRefExpr" and x.get("local") and x.d["d"] in inits and not RA._reassigned(fn, x.d["d"]) and hops < 6:
        x = std_unwrap(inits[x.d["d"]])
        hops += 1
    c = x.cv()
    if c is not None and x.kind not in ("DeclRefExpr", "MemberExpr"):
        return str(c)
    def frame_field(e, fld):
        """e is `<expression of frame type>-><fld>`: through a local, or directly on what a folded look-up helper returned"""
        e = std_unwrap(e)
        if e.kind != "MemberExpr" or e.get("m") != fld or e.get("mk") != "Field":
            return False
        p_ = path(e)
        if p_ and len(p_) == 2:
            return True
        return (e.get("mc") or "").endswith("frame")
    if x.is_call() and x.callee and x.callee["n"] == "bucket_to_size" and x.args:
        if frame_field(x.args[0], "index"):
            return "bucket_to_size(<frame>.index)"
    if frame_field(x, "length"):
        return "<frame>.length"
    return _strip_ids(canon(x))


def _const_offset(n):
    """For (x + a) - b / x + (a - b) forms: the constant total added to the non-constant operand."""
    n = n.strip()
    if n.kind == "BinaryOperator" and n.op in ("+", "-"):
        l, r = n.children[0].strip(), n.children[1].strip()
        rc, lc = r.cv(), l.cv()
        if rc is not None:
            base = _const_offset(l)
            return (base if base is not None else 0) + (rc if n.op == "+" else -rc)
        if lc is not None and n.op == "+":
            base = _const_offset(r)
            return (base if base is not None else 0) + lc
        return None
    return 0


def _name_of(fn, did):
    for x in fn.all_nodes():
        if x.kind == "DeclStmt":
            for d in x.get("decls", []):
                if d["d"] == did:
                    return d["n"]
    return None


# ------------------------------------------------------------------------------------------- C02

def check_C02(ctx, unit):
    ctx.rule("N.null-tolerant", "realloc/free/deallocate/get_size test their pointer argument before the frame header is "
             "dereferenced; realloc(null, n) forwards to allocate(n); realloc(p, 0) frees and returns null", 4)
    ctx.rule("E.realloc-copy", "realloc's copying fallback: memcpy(new, old, n) precedes free(old); n only ever holds the old "
             "usable size (bucket_to_size(frame index) or the frame length); in-place arms return the same pointer and are "
             "taken only when new_size <= usable size", 3)
    ctx.rule("E.reuse-before-map", "a new slab is constructed only when the bucket has no head slab; free_in_slab_ decides "
             "'slab was full' before it pushes the object, then re-inserts the slab and repairs the head; a slab that becomes "
             "full leaves the partial tree and the head is recomputed", 3)
    for inst in pool_instantiations(unit):
        fns = pool_fns(unit, inst)
        bn = _byname(fns)
        tag = inst[len(POOL):]
        for name in ("realloc", "free", "deallocate", "get_size"):
            for f in bn.get(name, []):
                pp = f.params()[0]["d"]
                lk = frame_lookups(f)
                from .ir import ref_local
                derefs = [n for n in f.events() if n.kind == "MemberExpr" and (n.get("arrow") or (n.children and ref_local(n.children[0]))) and (
                    (path(n) and path(n)[0].startswith("v:")) or (n.get("mc") or "").endswith("frame"))]
                bad = []
                for n in derefs:
                    nonnull = False
                    for cond, truth in flow.facts_at(f, n.id):
                        box = {}

                        def assume(a, v, box=box):
                            a = std_unwrap(a)         # (through the parameters of folded helpers)
                            if a.kind == "DeclRefExpr" and a.d["d"] == pp:
                                box["v"] = v
                        flow.refine_bool(cond, truth, lambda a: None, assume)
                        if box.get("v") is True:
                            nonnull = True
                    if not nonnull:
                        bad.append(n.loc)
                extra = ""
                ok2 = True
                if name == "realloc":
                    # first decision is on p; its null arm returns allocate(new_size)
                    from .ir import exit_values
                    evs = exit_values(f)
                    fw = [(r, v) for r, v in evs if v is not None and std_unwrap(v).is_call()
                          and std_unwrap(v).callee and std_unwrap(v).callee["n"] == "allocate"]
                    ok_fw = False
                    for r, v in fw:
                        for cond, truth in flow.facts_at(f, r.id):
                            c, t = cond.strip(), truth
                            while c.kind == "UnaryOperator" and c.op == "!":
                                c, t = c.children[0].strip(), not t
                            if c.kind == "DeclRefExpr" and c.d["d"] == pp and t is False:
                                a = std_unwrap(v).args
                                ok_fw = len(a) == 1 and std_unwrap(a[0]).kind == "DeclRefExpr" and std_unwrap(a[0]).d["d"] == f.params()[1]["d"]
                    fz = False
                    for r, v in evs:
                        if v is not None and (v.strip().get("nullc") or v.strip().kind == "CXXNullPtrLiteralExpr"):
                            facts = flow.facts_at(f, r.id)
                            zero = any(_is_zero_fact(c, t, f.params()[1]["d"]) for c, t in facts)
                            frees = [n for n in f.events() if n.is_call() and n.callee and n.callee["n"] == "free" and f.dominates(n.id, r.id)]
                            if zero and frees:
                                fz = True
                    ok2 = ok_fw and fz
                    extra = "; (null, n) -> allocate(n): %s; (p, 0) -> free + null: %s" % (ok_fw, fz)
                ctx.inst("N.null-tolerant", "%s::%s%s" % (POOL, name, tag), not bad and ok2 and bool(derefs), f.loc,
                         ("frame header read at %s without the pointer known non-null" % bad[0]) if bad else
                         "%d header reads, all dominated by the null test%s" % (len(derefs), extra), f)
        for f in bn.get("realloc", []):
            cps = [n for n in f.events() if n.is_call() and n.callee and n.callee["n"] in ("memcpy", "__builtin_memcpy")]
            frs = [n for n in f.events() if n.is_call() and n.callee and n.callee["n"] == "free"]
            problems = []
            if len(cps) != 1:
                problems.append("expected one memcpy, found %d" % len(cps))
            else:
                c = cps[0]
                pp = f.params()[0]["d"]
                src = std_unwrap(c.args[1])
                if not (src.kind == "DeclRefExpr" and src.d["d"] == pp):
                    problems.append("copies from %s, not from the old block" % canon(src))
                after = [fr for fr in frs if f.dominates(c.id, fr.id)]
                if not after:
                    problems.append("the old block is not freed after the copy")
                if any(f.reaches(fr.id, c.id) for fr in frs):
                    problems.append("a free() can precede the copy")
                cnt = std_unwrap(c.args[2])
                if cnt.kind == "DeclRefExpr":
                    defs = []
                    for x in f.all_nodes():
                        if x.kind == "BinaryOperator" and x.op == "=" and std_unwrap(x.children[0]).kind == "DeclRefExpr" \
                                and std_unwrap(x.children[0]).d["d"] == cnt.d["d"]:
                            defs.append(_usable_size_shape(f, x.children[1]))
                    init = RA.local_inits(f).get(cnt.d["d"])
                    if init is not None:
                        defs.append(_usable_size_shape(f, init))
                    okd = set(defs) <= {"bucket_to_size(<frame>.index)", "<frame>.length"} and defs
                    if not okd and defs:
                        # which of them can actually be in the variable when the copy runs (a `= 0` that is overwritten on
                        # every path that reaches the copy never is): asked path by path, with the outcome of the in-place
                        # helpers followed through the local that holds it
                        from .inline import inline_variant as _iv
                        byd_ = {g.d["did"]: g for g in fns}
                        fi_ = _iv(unit, f, lambda cal: byd_.get(cal.get("did")) is not None and byd_[cal["did"]].get("access") in ("private", "protected")
                                  and ((byd_[cal["did"]].get("ret") or "") == "bool" or _returns_outcome_constants(byd_[cal["did"]])))
                        cps2 = [x.id for x in fi_.all_nodes() if x.is_call() and x.callee and x.callee["n"] in ("memcpy", "__builtin_memcpy", "memmove") and len(x.args) == 3
                                and std_unwrap(x.args[2]).kind == "DeclRefExpr" and std_unwrap(x.args[2]).d["d"] == cnt.d["d"]]
                        r3 = _old_pointer_paths(fi_, f.params()[0]["d"], f.params()[-1]["d"], track=cnt.d["d"], at=set(cps2))
                        if r3[0] is not None and r3[2] and r3[2] <= {"bucket_to_size(<frame>.index)", "<frame>.length"}:
                            okd = True
                    if not okd:
                        problems.append("copy length takes values %s" % sorted(set(defs)))
                else:
                    problems.append("copy length is %s" % canon(cnt))
            # in-place arms: stated on realloc *with its bool-returning private helpers folded in*, so the rule reads the
            # same whether reallocate_*_ exist or have been inlined by hand: the old pointer is returned only under
            # new_size <= usable size of the block
            from .inline import inline_variant
            byd = {g.d["did"]: g for g in fns}

            def sel(cal, byd=byd):
                g = byd.get(cal.get("did"))
                return g is not None and g.get("access") in ("private", "protected") and (
                    (g.get("ret") or "") == "bool" or _returns_outcome_constants(g))
            fi = inline_variant(unit, f, sel)
            ns_did = f.params()[-1]["d"]
            arms = 0
            arm_shapes = set()
            from .ir import exit_values as _exit_values
            for r, v in _exit_values(fi):
                if v is not None and std_unwrap(v).kind == "DeclRefExpr" and std_unwrap(v).d["d"] == f.params()[0]["d"]:
                    arms += 1
                    okp = False
                    for cond, truth in flow.facts_at(fi, r.id):
                        rel = flow.fact_relation(cond, truth)
                        if rel is None:
                            continue
                        a_, op_, b_ = rel
                        if op_ in ("<=", "<", "==") and std_unwrap(a_).kind == "DeclRefExpr" and std_unwrap(a_).d["d"] == ns_did:
                            shapes = {_usable_size_shape(fi, b_)}
                            bb = std_unwrap(b_)
                            if bb.kind == "DeclRefExpr" and bb.get("local") and RA._reassigned(fi, bb.d["d"]):
                                # a local that is assigned per kind of block: the definitions that reach the comparison
                                defs_ = flow.reaching_defs(fi, bb.d["d"], cond.strip().id if cond.strip().id in fi.positions() else r.id)
                                shapes = {(_usable_size_shape(fi, d_) if d_ is not None else "<undefined>") for d_ in defs_} or {"<undefined>"}
                            if shapes <= {"bucket_to_size(<frame>.index)", "<frame>.length"}:
                                okp = True
                                arm_shapes |= shapes
                    if not okp:
                        problems.append("returns the old pointer at %s without new_size <= usable size known on that path" % r.loc)
            if arm_shapes != {"bucket_to_size(<frame>.index)", "<frame>.length"} or any("returns the old pointer" in p_ for p_ in problems):
                # the same question asked path by path (single exit through a result variable, outcome held in a local of a
                # two-valued type): every path that returns the old pointer has passed new_size <= usable size
                ps_bad, ps_shapes = _old_pointer_paths(fi, f.params()[0]["d"], ns_did)
                if ps_bad is not None and not ps_bad and ps_shapes == {"bucket_to_size(<frame>.index)", "<frame>.length"}:
                    problems = [p_ for p_ in problems if "returns the old pointer" not in p_]
                    arm_shapes = ps_shapes
            if arm_shapes != {"bucket_to_size(<frame>.index)", "<frame>.length"}:
                # (one arm per kind of block, or one shared arm whose size variable is defined per kind)
                problems.append("expected in-place success for slab blocks and for large blocks, found %d arm(s) over %s" % (arms, sorted(arm_shapes)))
            # the copy fits its destination: on every path to memcpy(new, old, n) the new block was requested with
            # new_size > n -- known from the assertion on n, or from the test that made the in-place helper give up on the
            # value n holds on that path (per path: the slab arm and the large arm establish it for different expressions)
            cps_ = [c for c in fi.events() if c.is_call() and c.callee and c.callee["n"] in ("memcpy", "__builtin_memcpy", "memmove") and len(c.args) == 3]
            short = []
            for c in cps_:
                cn = std_unwrap(c.args[2])
                if cn.kind != "DeclRefExpr":
                    continue
                nd = cn.d["d"]

                def trc(n, st, nd=nd, c=c):
                    gt, nsh = st
                    if n.kind == "BinaryOperator" and n.op == "=" and std_unwrap(n.children[0]).kind == "DeclRefExpr" \
                            and std_unwrap(n.children[0]).d["d"] == nd:
                        return [(gt - {"v"}, _usable_size_shape(fi, n.children[1]))]
                    if n.kind == "DeclStmt":
                        for d_ in n.get("decls", []):
                            if d_.get("d") == nd and "init" in d_:
                                return [(gt - {"v"}, _usable_size_shape(fi, fi.node(d_["init"])))]
                    if n.id == c.id and "v" not in gt and (nsh is None or nsh not in gt):
                        short.append(c.loc)
                    return [st]

                def rfc(cond, truth, st, nd=nd):
                    gt, nsh = st
                    rel = flow.fact_relation(cond, truth)
                    if rel is not None:
                        a_, op_, b_ = rel
                        if op_ == "<" and std_unwrap(b_).kind == "DeclRefExpr" and std_unwrap(b_).d["d"] == ns_did:
                            x = std_unwrap(a_)
                            if x.kind == "DeclRefExpr" and x.d.get("d") == nd:
                                gt = gt | {"v"}
                            else:
                                gt = gt | {_usable_size_shape(fi, a_)}
                    return [(gt, nsh)]
                flow.run(fi, [(frozenset(), None)], trc, rfc)
            if short:
                problems.append("the copy at %s can run on a path on which new_size > (copied length) is not known: the old usable "
                                "size may exceed the new block" % sorted(set(short))[0])
            ctx.inst("E.realloc-copy", "%s::realloc%s" % (POOL, tag), not problems, f.loc,
                     "; ".join(problems) if problems else "allocate, test, memcpy(old usable size), free(old), return new", f)
        for name in ("reallocate_in_slab_", "reallocate_huge_"):
            for f in bn.get(name, []):
                ns = f.params()[-1]["d"]
                bad = []
                if (f.get("ret") or "") != "bool" and _returns_outcome_constants(f):
                    # a two-valued outcome type: the outcome must tell `fits` from `does not fit` -- no constant is returned
                    # both under new_size <= usable size and without it (which of the two makes realloc keep the block is
                    # decided on realloc itself, path by path)
                    under, without = set(), set()
                    for r in f.return_nodes():
                        v = r.child("val")
                        cvv = std_unwrap(v).cv() if v is not None else None
                        fits = False
                        for cond, truth in flow.facts_at(f, r.id):
                            rel = flow.fact_relation(cond, truth)
                            if rel and rel[1] in ("<=", "<", "==") and std_unwrap(rel[0]).kind == "DeclRefExpr" and std_unwrap(rel[0]).d["d"] == ns \
                                    and _usable_size_shape(f, rel[2]) in ("bucket_to_size(<frame>.index)", "<frame>.length"):
                                fits = True
                        (under if fits else without).add(cvv)
                    okh = bool(under) and bool(without) and not (under & without)
                    ctx.inst("E.realloc-copy", "%s::%s%s" % (POOL, name, tag), okh, f.loc,
                             "the outcome tells new_size <= usable size (%s) from the rest (%s): %s" % (sorted(map(str, under)), sorted(map(str, without)), okh), f)
                    continue
                for r in f.return_nodes():
                    v = r.child("val")
                    if v is not None and v.strip().cv() == 1:
                        fits = False
                        for cond, truth in flow.facts_at(f, r.id):
                            c = cond.strip()
                            if c.kind == "BinaryOperator" and c.op == ">" and truth is False and std_unwrap(c.children[0]).kind == "DeclRefExpr" \
                                    and std_unwrap(c.children[0]).d["d"] == ns and \
                                    _usable_size_shape(f, c.children[1]) in ("bucket_to_size(<frame>.index)", "<frame>.length"):
                                fits = True
                        if not fits:
                            bad.append(r.loc)
                ctx.inst("E.realloc-copy", "%s::%s%s" % (POOL, name, tag), not bad, f.loc,
                         "reports success only when new_size <= usable size: %s" % (not bad), f)
        for f in bn.get("allocate", []):
            cs = [n for n in f.events() if n.is_call() and n.callee and n.callee["n"] == "_construct_slab"]
            ok = bool(cs)
            for c in cs:
                g = False
                for cond, truth in flow.facts_at(f, c.id):
                    c0, t0 = cond.strip(), truth
                    while c0.kind == "UnaryOperator" and c0.op == "!":
                        c0, t0 = c0.children[0].strip(), not t0
                    p = path(c0)
                    if not (p and p[-1] == "head_slb"):
                        p = path(std_unwrap(RA.resolve_at(f, c0)))      # (the head read into a local that is tested)
                    if p and p[-1] == "head_slb" and t0 is False:
                        g = True
                ok = ok and g
            # slab becomes full
            rm = [n for n in f.events() if n.is_call() and n.callee and n.callee["n"] == "remove"]
            okr = False
            for r in rm:
                for cond, truth in flow.facts_at(f, r.id):
                    c, t = cond.strip(), truth
                    while c.kind == "UnaryOperator" and c.op == "!":
                        c, t = c.children[0].strip(), not t
                    p = path(c)
                    if p and p[-1] == "available" and t is False:
                        hw = [w for w in f.events() if write_of(w) and write_of(w)[0] and write_of(w)[0][-1] == "head_slb" and f.dominates(r.id, w.id)]
                        okr = bool(hw)
            ctx.inst("E.reuse-before-map", "%s::allocate%s" % (POOL, tag), ok and okr, f.loc,
                     "_construct_slab only when the bucket has no head slab: %s; a slab that became full leaves the partial tree "
                     "and the head is recomputed: %s" % (ok, okr), f)
        # head repair: after a slab X is (re-)inserted into the partial tree, X becomes the head exactly when there is no
        # head or X lies at a lower address.  Decided exactly: from the insert call on, the CFG is walked once for each of
        # the 18 valuations of (head present?, X.address, head.address), every branch that depends on them is
        # evaluated, and at the function's exit `head == X` must equal the expected outcome.  No assumption about how
        # the test is spelled (one `||`, nested ifs, else-if, a helper).
        n_sites = 0
        from .inline import inline_variant as _iv

        def _has_insert(f_):
            return any(n.is_call() and n.callee and n.callee["n"] == "insert" and n.kind == "CXXMemberCallExpr" and n.args
                       and path(n.child("obj")) and path(n.child("obj"))[-1] == "partial_tree" for n in f_.events())
        # where the free path re-links a slab: free_in_slab_ itself, or -- when the re-linking was moved out of it -- each
        # release entry point read together with free_in_slab_ (the helper folded in)
        relink_in_helper = any(_has_insert(f_) for f_ in bn.get("free_in_slab_", []))
        release_fns = []
        if relink_in_helper:
            release_fns = [("free_in_slab_", f_) for f_ in bn.get("free_in_slab_", [])]
        else:
            for nm_ in ("free", "deallocate"):
                for f0_ in bn.get(nm_, []):
                    if any(n.is_call() and n.callee and n.callee["n"] == "free_in_slab_" for n in f0_.events()):
                        release_fns.append((nm_, _iv(unit, f0_, lambda cal: cal.get("n") == "free_in_slab_")))
        for name, f in [("allocate", f_) for f_ in bn.get("allocate", [])] + release_fns:
            if True:
                ins = [n for n in f.events() if n.is_call() and n.callee and n.callee["n"] == "insert" and n.args
                       and n.kind == "CXXMemberCallExpr" and path(n.child("obj")) and path(n.child("obj"))[-1] == "partial_tree"]
                for k, ic in enumerate(sorted(ins, key=lambda n: _lockey(n.loc))):
                    xp = path(ic.args[0])
                    if not xp or len(xp) != 1:
                        continue
                    n_sites += 1
                    bad = []

                    def mkval(st, xp=xp):
                        def val(leaf):
                            p_ = path(leaf)
                            if not p_:
                                return None
                            if p_[-1] == "head_slb":
                                return 1 if (st[3] or st[0]) else 0
                            if p_[-1] == "address" and len(p_) >= 2 and p_[-2] == "head_slb":
                                return st[1] if st[3] else (st[2] if st[0] else None)
                            if p_[-1] == "address" and p_[0] == xp[0] and len(p_) == 2:
                                return st[1]
                            return None
                        return val

                    def transfer(n, st, ic=ic, xp=xp):
                        if st is None:
                            if n.id == ic.id:
                                return [(pr, s_, h_, False) for pr in (0, 1) for s_ in (0, 1, 2) for h_ in (0, 1, 2)]
                            return [st]
                        w = write_of(n)
                        if w and w[0] and w[0][-1] == "head_slb" and n.kind == "BinaryOperator":
                            vp = path(std_unwrap(w[1])) if w[1] is not None else None
                            if vp == xp:
                                return [(st[0], st[1], st[2], True)]
                            return [(st[0], st[1], st[2], "other")]
                        return [st]

                    def refine(cond, truth, st):
                        if st is None:
                            return [st]
                        v = flow.sem_eval(cond, mkval(st))
                        if v is None or bool(v) == truth:
                            return [st]
                        return []
                    _, ex = flow.run(f, [None], transfer, refine, limit=100000)
                    for st in sorted(x for x in ex if x is not None):
                        want = (not st[0]) or st[1] < st[2]
                        if st[3] != want:
                            bad.append("head %s, slab address %d, head address %d: slab %s the head, expected %s" % (
                                "present" if st[0] else "absent", st[1], st[2],
                                "becomes" if st[3] is True else ("is replaced by something else as" if st[3] == "other" else "does not become"),
                                "head" if want else "no change"))
                    ctx.inst("E.reuse-before-map", "%s::%s: head repair #%d%s" % (POOL, name, k + 1, tag), not bad, ic.loc,
                             "; ".join(bad[:3]) if bad else "slab installed as head iff there is no head or its address is lower (all 18 valuations, path-sensitive)", f)
        if n_sites < 2:
            raise AnalysisBroken("anchor vanished: head-slab repair sites (found %d)" % n_sites)
        # free_in_slab_: the slab is re-inserted exactly when it was full *before* this block was pushed onto its list.
        # Exact: the function is walked for both entry values of `available` (null / non-null); locals snapshot what they
        # are initialised from, the push makes `available` non-null, every branch over those is evaluated.
        for rname, f in release_fns:
            ins = [n for n in f.events() if n.is_call() and n.callee and n.callee["n"] == "insert" and n.kind == "CXXMemberCallExpr"
                   and path(n.child("obj")) and path(n.child("obj"))[-1] == "partial_tree"]
            push = [n for n in f.events() if write_of(n) and write_of(n)[0] and write_of(n)[0][-1] == "available" and n.kind in ("BinaryOperator", "CallExpr")]
            if not push or (not ins and relink_in_helper):
                raise AnalysisBroken("anchor vanished: free-list push / partial-tree insert in %s" % f.qn)
            if not ins:
                ctx.inst("E.reuse-before-map", "%s::%s%s" % (POOL, rname, tag), False, f.loc,
                         "%s() pushes the block onto its slab's free list (through free_in_slab_) but no path of it re-inserts "
                         "a slab that was full into the partial tree, although the sibling release function does: the slab is "
                         "never allocated from again" % rname, f)
                continue
            problems = []

            def mkval2(st):
                cur, snaps = st[1], dict(st[2])

                def val(leaf):
                    x = leaf.strip()
                    if x.kind == "DeclRefExpr" and x.get("local") and x.d["d"] in snaps:
                        return snaps[x.d["d"]]
                    p_ = path(leaf)
                    if p_ and p_[-1] == "available" and len(p_) == 2:
                        return cur
                    return None
                return val

            def transfer2(n, st):
                entry, cur, snaps, inserted, pushed = st
                if n.kind == "DeclStmt":
                    sn = dict(snaps)
                    for d in n.get("decls", []):
                        if "init" in d:
                            v = flow.sem_eval(f.node(d["init"]), mkval2(st))
                            if v is not None:
                                sn[d["d"]] = int(v)
                            else:
                                sn.pop(d["d"], None)
                    return [(entry, cur, tuple(sorted(sn.items())), inserted, pushed)]
                if any(n.id == p_.id for p_ in push):
                    return [(entry, 1, snaps, inserted, True)]
                if any(n.id == i_.id for i_ in ins):
                    return [(entry, cur, snaps, True, pushed)]
                return [st]

            def refine2(cond, truth, st, f=f):
                c_, t_ = cond.strip(), truth
                while c_.kind == "UnaryOperator" and c_.op == "!":
                    c_, t_ = c_.children[0].strip(), not t_
                if c_.get("inlined"):
                    # `if(free_in_slab_(slb, p))` with the helper folded in: the test is on the helper's result
                    from .ir import value_leaves
                    ls = value_leaves(f, c_)
                    if len(ls) == 1:
                        cond, truth = ls[0], t_
                v = flow.sem_eval(cond, mkval2(st))
                if v is None or bool(v) == truth:
                    return [st]
                return []
            _, ex = flow.run(f, [(0, 0, (), False, False), (1, 1, (), False, False)], transfer2, refine2, limit=100000)
            ex = {st for st in ex if st[4]}      # only the paths that push a block (an entry point also releases large frames)
            for st in sorted(ex):
                if st[0] == 0 and not st[3]:
                    problems.append("a slab that was full before the push is not re-inserted into the partial tree "
                                    "(the decision reads `available` after the push, or is missing)")
                if st[0] == 1 and st[3]:
                    problems.append("a slab that already had free objects is inserted into the partial tree a second time")
            if not ex:
                problems.append("no normal exit")
            ctx.inst("E.reuse-before-map", "%s::%s%s" % (POOL, rname, tag), not problems, f.loc,
                     "; ".join(sorted(set(problems))) if problems else "re-inserted iff `available` was null before the push (both entry values, path-sensitive)", f)


def check_size_arithmetic(ctx, unit, rule="B8.size-arithmetic"):
    """The page rounding of a large request and the reservation sum (area + padding [+ superblock]) cannot wrap around
    for any request length: otherwise allocate() returns a block far smaller than requested."""
    ctx.rule(rule, "no unsigned addition on the request length in allocate() or on the area size in _construct_large() can wrap "
             "for any length that reaches it (interval analysis with branch refinement; the helper's parameter range is the "
             "range of the caller's argument)", 2)
    from . import rules_bounds as RB
    for inst in pool_instantiations(unit):
        tag = inst[len(POOL):]
        bn = _byname(pool_fns(unit, inst))
        for f in bn.get("allocate", []):
            lenp = f.params()[0]["d"]
            res = RB.check_no_wrap_adds(ctx, rule, f, {lenp: RB.Iv(0, (1 << 64) - 1)}, label="%s::allocate%s" % (POOL, tag))
            if not res:
                raise AnalysisBroken("anchor vanished: size arithmetic in allocate")
            # range of the argument handed to _construct_large
            from . import rules_atomic as RA
            for c in [n for n in f.events() if n.is_call() and n.callee and n.callee["n"] == "_construct_large" and n.args]:
                env = {lenp: RB.Iv(0, (1 << 64) - 1)}
                lz = {d: i for d, i in RA.local_inits(f).items() if not RA._reassigned(f, d) and (i.get("bits") or i.strip().get("bits"))}
                env["__inits__"] = lz
                pk = RB.param_keyof(f)
                for cond, truth in flow.facts_at(f, c.id):
                    env = RB.refine_env(env, cond, truth, lambda n: pk(n))
                argiv = RB.ieval(c.args[0], env, f)
                for g in bn.get("_construct_large", []):
                    RB.check_no_wrap_adds(ctx, rule, g, {g.params()[0]["d"]: argiv}, label="%s::_construct_large%s" % (POOL, tag))


def check_counter_balance(ctx, unit, rule="E.counter-balance"):
    """A per-frame counter that allocation raises and that an assertion on the free path requires to be non-zero must be
    lowered when a block is freed: a counter that only ever rises wraps after 2^width allocations out of one slab, and the
    next (perfectly valid) free trips the assertion."""
    ctx.rule(rule, "a per-slab counter raised by allocate() and asserted non-zero by the free path is lowered by the free path "
             "(a counter that only rises wraps in long alloc/free churn)", 1)
    for inst in pool_instantiations(unit):
        tag = inst[len(POOL):]
        fns = pool_fns(unit, inst)
        recs = [r for r in unit.records if r["qn"] == inst + "::slab_frame"]
        if not recs:
            raise AnalysisBroken("anchor vanished: slab_frame of %s" % inst)
        import re as _re
        cands = [fl["n"] for fl in recs[0]["fields"] if _re.match(r"^(unsigned |signed )?(int|long|short|char|size_t|unsigned)$", fl["t"])]
        for fld in cands:
            incs, decs, asserted = [], [], []
            for f in fns:
                for n in f.events():
                    if n.kind == "UnaryOperator" and n.op in ("++", "--") and path(n.children[0]) and path(n.children[0])[-1] == fld:
                        (incs if n.op == "++" else decs).append((f, n))
                    if n.kind == "CompoundAssignOperator" and n.op in ("+=", "-=") and path(n.children[0]) and path(n.children[0])[-1] == fld:
                        (incs if n.op == "+=" else decs).append((f, n))
                    if n.kind == "MemberExpr" and n.get("mk") == "Field" and n.m == fld and n.get("mac") == "FRG_ASSERT":
                        asserted.append((f, n))
            if not incs:
                continue
            free_side = [x for x in asserted if not any(x[0].did == i[0].did for i in incs)]
            ok = bool(decs) or not free_side
            ctx.inst(rule, "%s::slab_frame::%s%s" % (POOL, fld, tag), ok, incs[0][1].loc,
                     ("raised at %d site(s) (%s), never lowered, and asserted non-zero in %s: wraps after 2^%s allocations from one slab" % (
                         len(incs), ", ".join(sorted({i[0].name for i in incs})), ", ".join(sorted({a[0].name for a in free_side})),
                         "32" if "int" in [fl["t"] for fl in recs[0]["fields"] if fl["n"] == fld][0] else "N")) if not ok else
                     "raised at %d site(s), lowered at %d" % (len(incs), len(decs)), incs[0][0])


def check_stale_after_remove(ctx, unit, rule="K.stale-after-remove"):
    """rbtree::remove(x) clears all five links of x: any navigation from x (successor, predecessor, get_left, get_right,
    get_parent) after the removal, before x is inserted again, returns null instead of the neighbour the caller
    expects.  Applies to every user of an intrusive tree in the pool."""
    ctx.rule(rule, "no tree navigation (successor/predecessor/get_left/get_right/get_parent) starts from a node after that "
             "node was removed from the tree (remove() clears its links); the neighbour must be read before the removal", 2)
    NAV = ("successor", "predecessor", "get_left", "get_right", "get_parent")
    for inst in pool_instantiations(unit):
        tag = inst[len(POOL):]
        for f in pool_fns(unit, inst):
            rms = [n for n in f.events() if n.kind == "CXXMemberCallExpr" and n.callee and n.callee["n"] == "remove" and n.args
                   and "tree" in (n.callee.get("cls") or "") and path(n.args[0])]
            if not rms:
                continue
            navs = [n for n in f.events() if n.is_call() and n.callee and n.callee["n"] in NAV and n.args and "tree" in (n.callee.get("cls") or "")]
            ins = [n for n in f.events() if n.kind == "CXXMemberCallExpr" and n.callee and n.callee["n"] == "insert" and n.args
                   and "tree" in (n.callee.get("cls") or "")]
            for k, r in enumerate(sorted(rms, key=lambda n: _lockey(n.loc))):
                xp = path(r.args[0])
                bad = []
                for nv in navs:
                    if path(nv.args[0]) == xp and f.reaches(r.id, nv.id):
                        if any(path(i_.args[0]) == xp and f.reaches(r.id, i_.id) and f.reaches(i_.id, nv.id) for i_ in ins):
                            continue
                        bad.append("%s(%s) at %s after the node was removed at %s" % (nv.callee["n"], ".".join(xp).split("#")[0], nv.loc, r.loc))
                ctx.inst(rule, "%s::%s: remove #%d%s" % (POOL, f.name, k + 1, tag), not bad, r.loc,
                         "; ".join(bad) if bad else "no navigation from the removed node afterwards", f)


def _is_zero_fact(cond, truth, did):
    c, t = cond.strip(), truth
    while c.kind == "UnaryOperator" and c.op == "!":
        c, t = c.children[0].strip(), not t
    return c.kind == "DeclRefExpr" and c.d["d"] == did and t is False


# ------------------------------------------------------------------------------------------- C03

def check_C03(ctx, unit):
    pol = policy_classes(unit)
    ctx.rule("E.map-provenance", "in both constructors the length passed to Policy::map is the value stored in the frame's "
             "sb_reservation and the result of map is stored in sb_base", 6)
    ctx.rule("E.unmap-provenance", "the header fields of a frame (type, address, length, sb_base, sb_reservation) are written only to a "
             "frame the same function has just placement-constructed; "
             "Policy::unmap has one call site, reached only for large frames; its arguments are the "
             "frame's sb_base and sb_reservation, read before the header is poisoned", 3)
    ctx.rule("E.page-accounting", "the used-page counter is raised on slab/large creation and lowered on large free by the same "
             "expression of the frame length", 3)
    ctx.rule("Z.poison-order", "poisoning policies: pool memory is unpoisoned before the pool constructs or links anything in it; "
             "free: unpoison_expand, poison(item), unpoison(link word), then the link is written; allocate: poison(link word), "
             "unpoison(length) before returning; nothing reads a frame header after it was poisoned; realloc never returns "
             "with the caller's block poisoned unless it freed it", 8)
    for inst in pool_instantiations(unit):
        fns = pool_fns(unit, inst)
        bn = _byname(fns)
        tag = inst[len(POOL):]
        poisoning = any(is_policy_call(n, pol, ("poison",)) for f in fns for n in f.events())
        for name in ("_construct_slab", "_construct_large"):
            for f in bn.get(name, []):
                maps = [n for n in f.events() if is_policy_call(n, pol, ("map",))]
                if len(maps) != 1:
                    raise AnalysisBroken("anchor vanished: Policy::map call in %s (found %d)" % (f.qn, len(maps)))
                m = maps[0]
                problems = []
                # place that receives the result: a local, or a field of a local record (possibly one that a virtually
                # inlined helper returns by value: copies of local records are followed)
                from .rules_slab import bound_var, place_of, struct_aliases
                alias = struct_aliases(f)
                bv = bound_var(f, m)
                basev = None
                if bv is not None and bv[0] == "var":
                    basev = bv[1] if isinstance(bv[1], tuple) else (bv[1], None)
                if basev is None:
                    problems.append("result of map is not stored in a local")
                # frame field stores
                stores = {}
                for n in f.events():
                    w = write_of(n)
                    if w and w[0] and len(w[0]) == 2 and w[0][1] in ("sb_base", "sb_reservation") and w[1] is not None \
                            and place_of(n.children[0] if n.kind == "BinaryOperator" else n) is None:
                        stores[w[0][1]] = std_unwrap(w[1])
                if set(stores) != {"sb_base", "sb_reservation"}:
                    problems.append("frame fields written: %s" % sorted(stores))
                else:
                    def holds_map_result(v):
                        if place_of(v, alias) == basev:
                            return True
                        # a local that a folded helper's returns assign the map result or the failure constant 0
                        # (`return {n, 0, 0};` / `return {n, sb_base, aligned};`): where the frame is built it is the result
                        vs = std_unwrap(v)
                        if vs.kind != "DeclRefExpr":
                            return False
                        vals = [std_unwrap(x.children[1]) for x in f.all_nodes() if x.kind == "BinaryOperator" and x.op == "="
                                and std_unwrap(x.children[0]).kind == "DeclRefExpr" and std_unwrap(x.children[0]).d.get("d") == vs.d.get("d")]
                        nonconst = [y for y in vals if y.cv() is None]
                        return bool(nonconst) and all(place_of(y, alias) == basev for y in nonconst) and all(y.cv() == 0 for y in vals if y.cv() is not None)
                    if basev is not None and not holds_map_result(stores["sb_base"]):
                        problems.append("sb_base stores %s, not the result of map" % canon(stores["sb_base"]))
                    rv = stores["sb_reservation"]
                    rplace = place_of(rv, alias)
                    # value of the reservation place: its (single reaching) assignment
                    rdefs = []
                    if rplace is not None:
                        for x in f.events():
                            if x.kind == "BinaryOperator" and x.op == "=" and place_of(x.children[0], alias) == rplace:
                                rdefs.append(_strip_ids(canon(x.children[1])))
                    arg = _strip_ids(canon(m.args[0]))
                    same_place = rplace is not None and place_of(m.args[0], alias) == rplace
                    if not (same_place or arg == _strip_ids(canon(rv)) or (len(rdefs) == 1 and arg == rdefs[0])):
                        problems.append("map is asked for %s but the frame records %s (= %s)" % (arg, _strip_ids(canon(rv)), rdefs))
                ctx.inst("E.map-provenance", "%s::%s%s" % (POOL, name, tag), not problems, m.loc,
                         "; ".join(problems) if problems else "map(len) with len recorded in sb_reservation, result recorded in sb_base", f)
        um = [(f, n) for f in fns for n in f.events() if is_policy_call(n, pol, ("unmap",))]
        if not um:
            ctx.inst("E.unmap-provenance", "%s::<unmap call sites>%s" % (POOL, tag), False, "",
                     "expected a Policy::unmap call site, found none")
        # one site in the release helper, or -- when the helper is split and folded into its callers -- one per caller
        for f, n in um:
            inits = RA.local_inits(f)
            problems = []
            srcs = []
            for a in n.args:
                x = std_unwrap(a)
                if x.kind == "DeclRefExpr" and x.d["d"] in inits:
                    srcs.append(_strip_ids(canon(inits[x.d["d"]])))
                else:
                    srcs.append(_strip_ids(canon(x)))
            in_caller = f.name in ("free", "deallocate")
            fp = f.params()[0]["n"] if f.params() else None
            if in_caller:
                m_ = re.match(r"^(\w+)\.sb_base$", srcs[0]) if srcs else None
                fp = m_.group(1) if m_ else None
            if fp is None or srcs != ["%s.sb_base" % fp, "%s.sb_reservation" % fp]:
                problems.append("unmap arguments come from %s" % srcs)
            pz = [x for x in f.events() if is_policy_call(x, pol, ("poison",)) and x.args and _strip_ids(canon(x.args[0])) == fp]
            for p_ in pz:
                for a in n.args:
                    x = std_unwrap(a)
                    if x.kind == "DeclRefExpr" and x.d["d"] in inits:
                        decl = [d for d in f.events() if d.kind == "DeclStmt" and any(dd["d"] == x.d["d"] for dd in d.get("decls", []))]
                        if not (decl and f.dominates(decl[0].id, p_.id)):
                            problems.append("%s is read after the header was poisoned" % x.n)
                    elif f.dominates(p_.id, n.id):
                        problems.append("%s is read after the header was poisoned" % _strip_ids(canon(x)))
            ctx.inst("E.unmap-provenance", "%s::%s: unmap%s" % (POOL, f.name, tag), not problems, n.loc,
                     "; ".join(problems) if problems else "unmap(frame.sb_base, frame.sb_reservation), both read before poisoning", f)
            # callers reach it only for large frames
            def _large_at(cf, nid):
                large = False
                for cond, truth in flow.facts_at(cf, nid):
                    cc = _strip_ids(canon(cond))
                    if "frame_type::slab" in cc and "==" in cc and truth is False:
                        large = True
                    if "frame_type::large" in cc and truth is False and cc.startswith("(!"):
                        large = True
                return large
            if in_caller:
                ok = _large_at(f, n.id)
                ctx.inst("E.unmap-provenance", "%s::%s -> unmap%s" % (POOL, f.name, tag), ok, f.loc,
                         "large-frame release reached only when the frame is not a slab: %s" % ok, f)
                continue
            for cname in ("free", "deallocate"):
                for cf in bn.get(cname, []):
                    cs = [c for c in cf.events() if c.is_call() and c.callee and c.callee["did"] == f.did]
                    ok = bool(cs)
                    for c in cs:
                        ok = ok and _large_at(cf, c.id)
                    ctx.inst("E.unmap-provenance", "%s::%s -> %s%s" % (POOL, cname, f.name, tag), ok, cf.loc,
                             "large-frame release reached only when the frame is not a slab: %s" % ok, cf)
        if um and not all(f.name in ("free", "deallocate") for f, _ in um) and len(um) != 1:
            ctx.inst("E.unmap-provenance", "%s::<unmap call sites>%s" % (POOL, tag), False, "",
                     "Policy::unmap is called from %d places of which some are not the release entry points" % len(um))
        # accounting
        exprs = {}
        for f in fns:
            for n in f.events():
                if n.kind == "CompoundAssignOperator" and path(n.children[0]) == ("this", "_usedPages"):
                    e = _amount_shape(f, n.children[1])
                    exprs.setdefault(n.op, []).append((e, f, n))
        if "+=" not in exprs or "-=" not in exprs:
            raise AnalysisBroken("anchor vanished: _usedPages updates")
        allx = {e for op in exprs for (e, _, _) in exprs[op]}
        for op in sorted(exprs):
            for i, (e, f, n) in enumerate(exprs[op]):
                ctx.inst("E.page-accounting", "%s::%s: _usedPages %s #%d%s" % (POOL, f.name, op, i + 1, tag), len(allx) == 1, n.loc,
                         "amount %s; all amounts in this pool: %s" % (e, sorted(allx)), f)
        # the header of a frame describes a mapping: it is written when the frame is built and never again
        GEOM = ("type", "address", "length", "sb_base", "sb_reservation")
        late, n_w = [], 0
        for f in fns:
            inits_ = RA.local_inits(f)
            for n in f.events():
                tgt = None
                if n.kind in ("BinaryOperator", "CompoundAssignOperator") and n.get("op", "").endswith("=") and n.op not in ("==", "!=", "<=", ">="):
                    tgt = n.children[0].strip()
                elif n.kind == "UnaryOperator" and n.op in ("++", "--"):
                    tgt = n.children[0].strip()
                if tgt is None or tgt.kind != "MemberExpr" or tgt.get("m") not in GEOM or not tgt.children:
                    continue
                b = tgt.children[0]
                bt = (b.get("t") or "") + (std_unwrap(b).get("t") or "")
                if "frame" not in bt:
                    continue
                n_w += 1
                src = RA.resolve_local(f, std_unwrap(b), inits_)
                hops = 0
                while src.kind in ("ImplicitCastExpr", "CXXStaticCastExpr", "ParenExpr", "CStyleCastExpr", "CXXReinterpretCastExpr") and src.children and hops < 6:
                    src, hops = src.children[0].strip(), hops + 1
                if src.kind != "CXXNewExpr":
                    late.append("%s writes %s of a frame it did not just build (%s)" % (f.name, tgt.get("m"), n.loc))
        if n_w < 2:
            raise AnalysisBroken("anchor vanished: writes of sb_base / sb_reservation where a frame is built (found %d)" % n_w)
        ctx.inst("E.unmap-provenance", "%s: frame header written once%s" % (POOL, tag), not late, fns[0].loc,
                 ("; ".join(sorted(set(late))[:2]) + ": free_huge_ unmaps and un-accounts by these fields") if late else
                 "%d writes of header fields, all to the frame the function has just constructed" % n_w, None)
        if not poisoning:
            continue
        # poison typestate
        def pcalls(f, name):
            return [n for n in f.events() if is_policy_call(n, pol, (name,))]

        def arg0(n):
            return _strip_ids(canon(n.args[0])) if n.args else ""
        for f in bn.get("_construct_slab", []) + bn.get("_construct_large", []):
            news = [n for n in f.events() if n.kind == "CXXNewExpr" and n.get("placement")]
            k = 0
            for nw in sorted(news, key=lambda n: _lockey(n.loc)):
                k += 1
                where = _strip_ids(canon(f.node(nw.get("pargs")[0])))
                ups = [u for u in pcalls(f, "unpoison") if arg0(u) == where and f.dominates(u.id, nw.id)]
                ctx.inst("Z.poison-order", "%s::%s: placement #%d%s" % (POOL, f.name, k, tag), bool(ups), nw.loc,
                         "object constructed at %s; dominating unpoison of that address: %s" % (where, bool(ups)), f)
        for name in ("free_in_slab_", "reallocate_in_slab_", "reallocate_huge_"):
            for f in bn.get(name, []):
                seq = [pcalls(f, "unpoison_expand"), pcalls(f, "poison"), pcalls(f, "unpoison")]
                ok = all(len(s) == 1 for s in seq)
                if ok:
                    a, b, c = (s[0] for s in seq)
                    ok = f.dominates(a.id, b.id) and f.dominates(b.id, c.id) and arg0(a) == arg0(b) == arg0(c)
                    if name == "free_in_slab_":
                        news = [n for n in f.events() if n.kind == "CXXNewExpr" and n.get("placement")]
                        ok = ok and bool(news) and all(f.dominates(c.id, n.id) for n in news)
                        lw = [n for n in f.events() if write_of(n) and write_of(n)[0] and write_of(n)[0][-1] == "link"]
                        ok = ok and all(f.dominates(c.id, n.id) for n in lw)
                ctx.inst("Z.poison-order", "%s::%s%s" % (POOL, name, tag), ok, f.loc,
                         "unpoison_expand -> poison -> unpoison on the same block%s: %s" % (
                             ", then the link word is written" if name == "free_in_slab_" else "", ok), f)
        for f in bn.get("allocate", []):
            from .ir import return_sites
            rets = [(r, v) for r, v in return_sites(f) if v is not None and std_unwrap(v).kind == "DeclRefExpr"
                    and std_unwrap(v).get("local") and "freelist" in (std_unwrap(v).get("t") or "")]
            ok = bool(rets)
            lenp = f.params()[0]["d"]
            for r, v_ in rets:
                ov_ = std_unwrap(v_).d["d"]
                isv = lambda a: std_unwrap(a).kind == "DeclRefExpr" and std_unwrap(a).d["d"] == ov_
                po = [p for p in pcalls(f, "poison") if p.args and isv(p.args[0]) and f.dominates(p.id, r.id)]
                up = [u for u in pcalls(f, "unpoison") if u.args and isv(u.args[0]) and f.dominates(u.id, r.id)
                      and len(u.args) > 1 and std_unwrap(u.args[1]).kind == "DeclRefExpr" and std_unwrap(u.args[1]).d["d"] == lenp]
                ok = ok and bool(po) and bool(up) and f.dominates(po[0].id, up[0].id)
            ctx.inst("Z.poison-order", "%s::allocate%s" % (POOL, tag), ok, f.loc,
                     "small path: poison(link word) then unpoison(object, length) before returning: %s" % ok, f)
        # the copying fallback of realloc reads the whole usable size of the old block; only the requested prefix is known to
        # be unpoisoned, so the block must be unpoison_expand()ed first
        from .inline import inline_variant
        byd_ = {g.d["did"]: g for g in fns}
        for f0 in bn.get("realloc", []):
            f = inline_variant(unit, f0, lambda cal: (byd_.get(cal.get("did")) is not None and byd_[cal["did"]].get("access") in ("private", "protected")
                                                      and (byd_[cal["did"]].get("ret") or "") == "bool"))
            pp = f0.params()[0]["d"]
            cps = [n for n in f.events() if n.is_call() and n.callee and n.callee["n"] in ("memcpy", "__builtin_memcpy", "memmove")
                   and len(n.args) == 3 and std_unwrap(n.args[1]).kind == "DeclRefExpr" and std_unwrap(n.args[1]).d["d"] == pp]
            if not cps:
                raise AnalysisBroken("anchor vanished: copy out of the old block in realloc")
            bad = []

            def tr(n, st, f=f):
                kind, exp = st
                if is_policy_call(n, pol, ("unpoison_expand", "unpoison")) and n.args and std_unwrap(n.args[0]).kind == "DeclRefExpr" \
                        and std_unwrap(n.args[0]).d["d"] == pp:
                    return [(kind, True)]
                if is_policy_call(n, pol, ("poison",)) and n.args and std_unwrap(n.args[0]).kind == "DeclRefExpr" and std_unwrap(n.args[0]).d["d"] == pp:
                    return [(kind, False)]
                # (a large block is unpoisoned in full when it is built, but an in-place shrink by reallocate_huge_() of an
                # EARLIER call poisons its tail again: the expand is owed on the large path as well)
                if any(n.id == c.id for c in cps) and not exp:
                    bad.append("%s (%s path)" % (n.loc, kind or "either"))
                return [st]

            def rf(cond, truth, st):
                c, t = cond.strip(), truth
                while c.kind == "UnaryOperator" and c.op == "!":
                    c, t = c.children[0].strip(), not t
                cc = _strip_ids(canon(c))
                if c.kind == "BinaryOperator" and c.op in ("==", "!=") and ".type" in cc:
                    is_eq = (c.op == "==") == t
                    if "frame_type::slab" in cc:
                        return [("slab" if is_eq else "large", st[1])]
                    if "frame_type::large" in cc:
                        return [("large" if is_eq else "slab", st[1])]
                return [st]
            flow.run(f, [(None, False)], tr, rf)
            ctx.inst("Z.poison-order", "%s::realloc: copy out of the old block%s" % (POOL, tag), not bad, cps[0].loc,
                     ("memcpy at %s reads the whole usable size of a block whose tail beyond the requested length may still be "
                      "poisoned (no unpoison_expand of the old block on that path)" % bad[0]) if bad else
                     "the old block is unpoison_expand()ed before its usable size is copied, on the slab and on the large path", f0)
            left = realloc_exit_poisoned(unit, fns, f0, pol)
            ctx.inst("Z.poison-order", "%s::realloc: the caller's block at every exit%s" % (POOL, tag), not left, f0.loc,
                     ("the return at %s: a failed moving realloc must leave the still-live block exactly as accessible as "
                      "it was" % left[0]) if left else
                     "every return is reached with the caller's block untouched, resized in place or freed", f0)
        for f in bn.get("free_huge_", []):
            fp = f.params()[0]
            pz = [x for x in pcalls(f, "poison") if arg0(x) == fp["n"]]
            bad = []
            for p_ in pz:
                for n in f.events():
                    if n.kind == "MemberExpr" and path(n) and path(n)[0] == "p:%s#%d" % (fp["n"], fp["d"]) and f.reaches(p_.id, n.id):
                        bad.append(n.loc)
            ctx.inst("Z.poison-order", "%s::free_huge_%s" % (POOL, tag), bool(pz) and not bad, f.loc,
                     ("frame header read at %s after it was poisoned" % bad[0]) if bad else "no header access follows poison(frame)", f)


def realloc_exit_poisoned(unit, fns, f0, pol):
    """Whatever realloc does to the accessibility of the caller's block on the way, it returns with the block untouched,
    resized in place (unpoison_expand, poison, unpoison(new size)) or freed -- never poisoned and never merely widened: a
    failed moving realloc hands the block back exactly as usable as it was.  Returns the locations of the
    returns reached with the block poisoned and not freed (private bool helpers folded in)."""
    from .inline import inline_variant
    byd_ = {g.d["did"]: g for g in fns}
    f = inline_variant(unit, f0, lambda cal: (byd_.get(cal.get("did")) is not None and byd_[cal["did"]].get("access") in ("private", "protected")
                                              and (byd_[cal["did"]].get("ret") or "") == "bool"))
    pp = f0.params()[0]["d"]
    retids = {r.id for r in f.return_nodes()}
    left = []

    def isp(a):
        return std_unwrap(a).kind == "DeclRefExpr" and std_unwrap(a).d["d"] == pp

    def tr2(n, st):
        # untouched -> (unpoison_expand) expanded -> (poison) poisoned -> (unpoison) resized; free(p) ends the block
        if is_policy_call(n, pol, ("unpoison_expand",)) and n.args and isp(n.args[0]) and st != "freed":
            return ["expanded"]
        if is_policy_call(n, pol, ("unpoison",)) and n.args and isp(n.args[0]) and st != "freed":
            return ["resized"]
        if is_policy_call(n, pol, ("poison",)) and n.args and isp(n.args[0]) and st != "freed":
            return ["poisoned"]
        if n.is_call() and n.callee and n.callee["n"] in ("free", "free_in_slab_", "free_huge_", "deallocate") \
                and any(isp(a) for a in n.args):
            return ["freed"]
        if n.id in retids and st in ("poisoned", "expanded"):
            left.append("%s (block %s)" % (n.loc, "poisoned" if st == "poisoned" else "widened to its whole usable size"))
        return [st]
    flow.run(f, ["untouched"], tr2)
    return sorted(set(left))


def _amount_shape(f, e):
    """Normal form of a page amount: (numerator) / (denominator) as polynomials, with locals followed to what they were
    computed from and every frame's `length` field standing for "the length of the frame concerned"."""
    from .poly import Poly, to_poly

    def leaf(x, depth=0):
        x = _res(f, x)
        if x.kind == "MemberExpr" and x.m == "length":
            return Poly.sym("<frame>.length")
        c = x.cv() if x.kind not in ("MemberExpr",) else None
        if c is not None:
            return Poly.const(c)
        if x.kind == "BinaryOperator" and x.op in ("+", "-", "*") and depth < 8:
            return to_poly(x, lambda y: leaf(y, depth + 1))
        return Poly.sym(_strip_ids(canon(x)))
    x = _res(f, e)
    if x.kind == "BinaryOperator" and x.op == "/":
        return "(%s) / (%s)" % (to_poly(x.children[0], leaf), to_poly(x.children[1], leaf))
    return str(to_poly(x, leaf))


# ---- E.bucket-of-slab: the bucket whose lock and tree are used is the bucket of the slab that is touched -----------------

def _res(f, x, depth=0):
    """Resolve an expression to what it denotes: through once-initialised locals, parameters of folded helpers, helper
    results and casts."""
    for _ in range(16):
        y = std_unwrap(RA.resolve_at(f, std_unwrap(x)))
        hops = 0
        while y.kind in ("CStyleCastExpr", "CXXStaticCastExpr", "CXXReinterpretCastExpr", "ImplicitCastExpr", "ParenExpr",
                         "CXXFunctionalCastExpr") and y.children and hops < 8:
            y, hops = std_unwrap(y.children[0]), hops + 1
        if y.id == x.id:
            break
        x = y
    return x


def check_bucket_of_slab(ctx, unit, rule="E.bucket-of-slab"):
    """Each size class has its own mutex, partial tree and head slab; a slab belongs to the class recorded in its header.
    Wherever a bucket B and a slab S are used together -- S is inserted into / removed from B's tree, becomes B's head, or S's
    free list and counter are written under B's mutex -- they must be related by construction: B is _bkts[S->index], or S was
    read out of B (head_slb, partial_tree.first()), or S was just built for the index B was taken from.  Decided per public
    entry point with the private helpers that receive a bucket folded in, so that it does not matter on which side of a
    call the bucket is computed."""
    from .inline import inline_variant
    ctx.rule(rule, "a bucket's mutex, partial tree and head slab are only combined with a slab of that bucket: the bucket is "
             "_bkts[slab->index], or the slab was read out of the bucket, or it was just constructed for the bucket's index", 2)
    for inst in pool_instantiations(unit):
        fns = pool_fns(unit, inst)
        tag = inst[len(POOL):]
        byd = {g.d["did"]: g for g in fns}

        def takes_bucket(g):
            return any("bucket" in p_["t"] and p_["t"].rstrip().endswith("*") for p_ in g.params())
        n_inst = 0
        for f0 in fns:
            if f0.get("lambda") or takes_bucket(f0) or f0.kind in ("ctor", "dtor"):
                continue
            f = f0
            if any(c.is_call() and c.callee and byd.get(c.callee.get("did")) is not None and takes_bucket(byd[c.callee["did"]])
                   for c in f0.events()):
                f = inline_variant(unit, f0, lambda cal: byd.get(cal.get("did")) is not None and takes_bucket(byd[cal["did"]]))

            def bucket_of(x, f=f):
                """(index node) when x denotes _bkts[index] (as pointer or lvalue), else None; 'B:<canon>' otherwise"""
                x = _res(f, x)
                if x.kind == "UnaryOperator" and x.op == "&":
                    x = _res(f, x.children[0])
                if x.kind == "ArraySubscriptExpr" and path(x.children[0]) == ("this", "_bkts"):
                    return x.children[1]
                return None

            def related(b, s, f=f):
                sr = _res(f, s)
                idx = bucket_of(b)
                # (b) the slab was read out of this bucket
                if sr.kind == "MemberExpr" and sr.m == "head_slb" and _strip_ids(canon(_res(f, sr.children[0]))) == _strip_ids(canon(_res(f, b))):
                    return "read from the bucket's head"
                if sr.is_call() and sr.callee and sr.callee["n"] in ("first", "successor", "get_left", "get_right") and sr.child("obj") is not None:
                    o = _res(f, sr.child("obj"))
                    if o.kind == "MemberExpr" and o.m == "partial_tree" and _strip_ids(canon(_res(f, o.children[0]))) == _strip_ids(canon(_res(f, b))):
                        return "read from the bucket's tree"
                if idx is None:
                    return None
                ir = _res(f, idx)
                # (a) B == _bkts[S->index]
                if ir.kind == "MemberExpr" and ir.m == "index" and canon(_res(f, ir.children[0])) == canon(sr):
                    return "bucket taken from the slab's index"
                # (c) S = _construct_slab(i), B == _bkts[i]
                if sr.is_call() and sr.callee and sr.callee["n"] == "_construct_slab" and sr.args and canon(_res(f, sr.args[0])) == canon(ir):
                    return "slab constructed for the bucket's index"
                return None
            pairs = []
            for n in f.events():
                if n.kind == "CXXMemberCallExpr" and n.callee and n.callee["n"] in ("insert", "remove") and n.child("obj") is not None and n.args:
                    o = std_unwrap(n.child("obj"))
                    if o.kind == "MemberExpr" and o.m == "partial_tree":
                        pairs.append((n, o.children[0], n.args[0], "partial_tree.%s" % n.callee["n"]))
                w = write_of(n)
                if w and w[0] and w[0][-1] == "head_slb" and w[1] is not None and not _is_nullish(w[1]):
                    l = n.children[0].strip()
                    if l.kind == "MemberExpr":
                        pairs.append((n, l.children[0], w[1], "head_slb ="))
            # slab free list / counter written under a bucket's mutex
            locks = []
            for n in f.all_nodes():
                if n.kind in ("CXXConstructExpr", "CXXTemporaryObjectExpr") and n.callee and "unique_lock" in (n.callee.get("cls") or "") and n.args:
                    a = std_unwrap(n.args[0])
                    if a.kind == "MemberExpr" and a.m == "bucket_mutex":
                        locks.append((n, a.children[0]))
            if locks:
                seen_s = {}
                for n in f.events():
                    w = write_of(n)
                    if w and w[0] and w[0][-1] in ("available", "num_reserved") and len(w[0]) >= 2:
                        l = n.children[0].strip()
                        if l.kind == "MemberExpr":
                            seen_s.setdefault(canon(_res(f, l.children[0])), (n, l.children[0]))
                for (ln, b) in locks:
                    for key, (wn, s) in seen_s.items():
                        pairs.append((wn, b, s, "write of the slab's %s under the bucket's mutex" % path(wn.children[0])[-1]))
            pairs.sort(key=lambda t: (_lockey(t[0].loc), t[3]))
            for k_, (n, b, s, what) in enumerate(pairs):
                r = related(b, s)
                n_inst += 1
                ctx.inst(rule, "%s::%s%s: #%d %s" % (POOL, f0.name, tag, k_ + 1, what),
                         r is not None, n.loc,
                         r if r is not None else ("bucket %s and slab %s are not related by construction: the mutex that is held and the tree "
                                                  "that is edited may belong to a different size class than the slab" %
                                                  (_strip_ids(canon(_res(f, b)))[:80], _strip_ids(canon(_res(f, s)))[:80])), f0)
        if n_inst == 0:
            raise AnalysisBroken("anchor vanished: no bucket/slab pairing found in %s" % inst)


def _is_nullish(v):
    v = std_unwrap(v)
    return v.kind in ("CXXNullPtrLiteralExpr", "GNUNullExpr") or (v.cv() == 0)


def check_downcast_guarded(ctx, unit, rule="N.downcast-guarded"):
    """A frame found by the address look-up is a slab frame or a large frame; which one is recorded in its `type` field and
    nowhere else -- not in the size the caller states (a large block may have been shrunk in place), not in the path the
    block was allocated on.  Every conversion of a `frame *` into a `slab_frame *` is therefore under the decision
    `type == slab` on that very frame."""
    ctx.rule(rule, "slab_pool: a frame pointer is converted to slab_frame * only where `type == frame_type::slab` was decided for "
             "that frame on the path (the caller's size or the allocation path never stand in for the header)", 4)
    n_total = 0
    for inst in pool_instantiations(unit):
        fns = pool_fns(unit, inst)
        bad, n = [], 0
        for f in fns:
            for x in f.all_nodes():
                if x.kind not in ("CXXStaticCastExpr", "CStyleCastExpr", "CXXReinterpretCastExpr", "CXXFunctionalCastExpr"):
                    continue
                tt = (x.get("t") or "").replace(" ", "")
                if not tt.endswith("::slab_frame*") or not x.children:
                    continue
                op = x.children[0]
                st = (std_unwrap(op).get("t") or op.get("t") or "").replace(" ", "")
                if not st.endswith("::frame*"):
                    continue            # (from an address or from void *: construction sites, judged by E.carving / E.frame-lookup)
                if x.id not in f.positions():
                    anc, hops = x, 0
                    while anc is not None and anc.id not in f.positions() and hops < 10:
                        anc, hops = f.parent(anc), hops + 1
                else:
                    anc = x
                if anc is None:
                    continue
                n += 1
                want = path(op)
                ok = False
                for c, t in flow.facts_at(f, anc.id):
                    rel = flow.fact_relation(c, t)
                    if rel is None:
                        continue
                    a, o, b = rel
                    sides = [std_unwrap(a), std_unwrap(b)]
                    tp = [path(s_) for s_ in sides]
                    isslab = ["frame_type::slab" in canon(s_) for s_ in sides]
                    for i in (0, 1):
                        if tp[i] and tp[i][-1] == "type" and tp[i][:-1] == want and isslab[1 - i] and o == "==":
                            ok = True
                if not ok:
                    bad.append((x.loc, "%s: %s is taken for a slab frame at %s without `type == slab` decided for it" % (
                        f.name, canon(std_unwrap(op)).split("#")[0], x.loc.split("/")[-1]), f))
        n_total += n
        ctx.inst(rule, inst, not bad, bad[0][0] if bad else fns[0].loc,
                 "; ".join(sorted({b[1] for b in bad})[:3]) if bad else "%d conversions, each under the type test" % n, bad[0][2] if bad else None)
    if n_total < 4:
        raise AnalysisBroken("anchor vanished: frame -> slab_frame conversions in slab_pool (found %d)" % n_total)


def check_allocator_forwards(ctx, unit, rule="W.allocator-forwards"):
    """slab_allocator is the face of the pool that containers use.  Each of its members hands its request to the pool member
    of the same meaning on EVERY path: what a request means (a zero size frees, a null pointer allocates, a grown block is
    unpoisoned) is decided in the pool, and a wrapper that answers some requests itself answers them differently."""
    TABLE = {"allocate": ("allocate",), "free": ("free",), "deallocate": ("deallocate",), "reallocate": ("realloc",), "get_size": ("get_size",)}
    ctx.rule(rule, "slab_allocator: allocate/free/deallocate/reallocate/get_size reach the pool member of the same meaning on every "
             "path (the wrapper takes no decision of its own)", 4)
    fs = [f for f in unit.functions if f.owner_cls == "frg::slab_allocator" and f.name in TABLE and f.blocks]
    if len(fs) < 4:
        raise AnalysisBroken("anchor vanished: members of slab_allocator (found %d)" % len(fs))
    seen = set()
    for f in fs:
        key = (f.owner_clsqn, f.name)
        if key in seen:
            continue
        seen.add(key)

        def transfer(n, st, f=f):
            if n.is_call() and n.callee and n.callee["n"] in TABLE[f.name] and "slab_pool" in (n.callee.get("cls") or n.callee.get("uq") or ""):
                return [True]
            if n.is_call() and n.callee and n.callee.get("cls") == "frg::slab_allocator" and {n.callee["n"], f.name} == {"free", "deallocate"}:
                return [True]       # free/deallocate through one another: the sibling is held to the same rule
            return [st]
        _, ex = flow.run(f, [False], transfer, None)
        ok = bool(ex) and all(ex)
        ctx.inst(rule, "%s::%s" % (f.owner_clsqn, f.name), ok, f.loc,
                 "every path reaches slab_pool::%s" % TABLE[f.name][0] if ok else
                 "%s() returns on some path without having asked the pool (slab_pool::%s)" % (f.name, TABLE[f.name][0]), f)


def _returns_outcome_constants(g):
    """g returns values of a non-bool two-valued kind: every return value is an integer constant (enumerator), exactly two
    distinct ones occur"""
    try:
        vals = set()
        rs = g.return_nodes()
        if not rs:
            return False
        for r in rs:
            v = r.child("val")
            if v is None:
                return False
            c = std_unwrap(v).cv()
            if c is None:
                return False
            vals.add(c)
        return len(vals) == 2 and "*" not in (g.get("ret") or "") and (g.get("ret") or "") not in ("int", "size_t", "unsigned int", "long", "unsigned long")
    except Exception:
        return False


def _old_pointer_paths(fi, pdid, nsdid, track=None, at=()):
    """Path-sensitive: (locations where the old pointer is returned without new_size <= usable size on the path, shapes of
    the usable sizes seen on the paths that do return it).  Follows a result variable and a local that holds the constant
    a folded helper returned; branches on that local (or on the helper's value itself) are taken only the way the constant
    allows.  None if the state space is too large."""
    v2c = {}
    for n in fi.all_nodes():
        if n.d.get("inlined") and isinstance(n.d.get("rets"), list):
            for r in n.d["rets"]:
                v2c[r] = n.id
    bad, shapes = [], set()
    seen_at = set()

    def is_p(x):
        x = std_unwrap(x)
        hops = 0
        while x.kind in ("ImplicitCastExpr", "CStyleCastExpr", "CXXStaticCastExpr", "ParenExpr") and x.children and hops < 6:
            x, hops = std_unwrap(x.children[0]), hops + 1
        return x.kind == "DeclRefExpr" and x.d.get("d") == pdid

    def call_of(x):
        x = std_unwrap(x)
        hops = 0
        while x is not None and hops < 8:
            if x.d.get("inlined") and isinstance(x.d.get("rets"), list):
                return x.id
            if x.kind in ("ImplicitCastExpr", "ParenExpr", "ExprWithCleanups", "CXXBindTemporaryExpr", "CXXStaticCastExpr") and x.children:
                x, hops = x.children[0], hops + 1
            else:
                break
        return None

    def tr(n, st):
        fit, resp, consts = st
        if n.kind == "InlinedReturn" and n.d.get("val") in v2c:
            c = std_unwrap(fi.node(n.d["val"])).cv()
            consts = tuple(sorted((dict(consts) | {("c", v2c[n.d["val"]]): c}).items(), key=str)) if c is not None else consts
        tgt, rhs = None, None
        if n.kind == "BinaryOperator" and n.op == "=" and std_unwrap(n.children[0]).kind == "DeclRefExpr":
            tgt, rhs = std_unwrap(n.children[0]).d["d"], n.children[1]
            out = [(tgt, rhs)]
        elif n.kind == "DeclStmt":
            out = [(d_["d"], fi.node(d_["init"])) for d_ in n.get("decls", []) if "init" in d_]
        else:
            out = []
        if track is not None and n.id in at:
            seen_at.add(dict(resp).get(("shape", track), "<undefined>"))
        for tgt, rhs in out:
            if track is not None and tgt == track:
                m3 = dict(resp)
                m3[("shape", track)] = _usable_size_shape(fi, rhs)
                resp = tuple(sorted(m3.items(), key=str))
                continue
            m = dict(consts)
            ci = call_of(rhs)
            if ci is not None and ("c", ci) in m:
                m[("v", tgt)] = m[("c", ci)]
            else:
                m.pop(("v", tgt), None)
            consts = tuple(sorted(m.items(), key=str))
            m2 = dict(resp)
            m2[tgt] = is_p(rhs) or (std_unwrap(rhs).kind == "DeclRefExpr" and dict(resp).get(std_unwrap(rhs).d.get("d"), False))
            resp = tuple(sorted(m2.items(), key=str))
        if n.kind == "ReturnStmt":
            v = n.child("val")
            if v is not None:
                x = std_unwrap(v)
                old = is_p(v) or (x.kind == "DeclRefExpr" and dict(resp).get(x.d.get("d"), False))
                if old:
                    if not fit:
                        bad.append(n.loc)
                    else:
                        shapes.update(fit)
        return [(fit, resp, consts)]

    def rf(cond, truth, st):
        fit, resp, consts = st
        m = dict(consts)

        def val(leaf):
            x = std_unwrap(leaf)
            ci = call_of(leaf)
            if ci is not None and ("c", ci) in m:
                return m[("c", ci)]
            if x.kind == "DeclRefExpr" and ("v", x.d.get("d")) in m:
                return m[("v", x.d["d"])]
            if x.kind == "DeclRefExpr" and x.get("dk") == "EnumConstant":
                return x.cv()
            return None
        try:
            v = flow.sem_eval(cond, val)
        except Exception:
            v = None
        if v is not None and bool(v) != bool(truth):
            return []
        rel = flow.fact_relation(cond, truth)
        if rel is not None and rel[1] in ("<=", "<", "==") and std_unwrap(rel[0]).kind == "DeclRefExpr" and std_unwrap(rel[0]).d["d"] == nsdid:
            sh = _usable_size_shape(fi, rel[2])
            if sh in ("bucket_to_size(<frame>.index)", "<frame>.length"):
                fit = fit | {sh}
        return [(fit, resp, consts)]
    try:
        flow.run(fi, [(frozenset(), (), ())], tr, rf, limit=200000)
    except flow.TooManyStates:
        return (None, set()) if track is None else (None, set(), set())
    return (sorted(set(bad)), shapes) if track is None else (sorted(set(bad)), shapes, seen_at)
