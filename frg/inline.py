"""Virtual inlining of *new* private helpers.

A behaviour-preserving refactoring often moves a few statements into a new private helper. Rules that reason
about one function's CFG (dominance, locksets, path sets, typestate) would lose sight of those statements. To
stay silent on such edits — and to keep seeing a defect when the moved statements are wrong — every call to a
member function that (a) belongs to the caller's own class, (b) is invoked on `this` (or is a static member),
(c) has a body in the unit, (d) is not recursive, and (e) whose qualified name is NOT in the frozen list of
function names that existed when the rules were written (frg/known_functions.json — those names are anchors the
rules bind to) is spliced into the caller's CFG: parameters become bindings, returns become bindings of the
call's value, callee blocks are copied with fresh node / block / declaration ids.
"""
import copy
import json
import os

ID_KEYS = ("fn", "obj", "init", "val", "cond", "then", "else", "body", "inc", "ptr", "order", "orderfail",
           "val1", "val2", "tv", "fv", "sub", "expr")
LIST_KEYS = ("c", "args", "pargs")
DECL_OFFSET = 10_000_000

_known = None


def known_functions():
    global _known
    if _known is None:
        p = os.path.join(os.path.dirname(os.path.abspath(__file__)), "known_functions.json")
        _known = set(json.load(open(p)))
    return _known


_arity = None


def known_arities():
    """{"uq/number of parameters"} of the functions the witness units saw when the rules were written."""
    global _arity
    if _arity is None:
        p = os.path.join(os.path.dirname(os.path.abspath(__file__)), "known_arities.json")
        _arity = set(json.load(open(p)))
    return _arity


_krec = None


def known_records():
    global _krec
    if _krec is None:
        p = os.path.join(os.path.dirname(os.path.abspath(__file__)), "known_records.json")
        _krec = set(json.load(open(p))) if os.path.exists(p) else None
    return _krec


def anchor_index(raw_functions):
    """uq -> True when the unit holds an overload of that name whose arity is a known one."""
    ka = known_arities()
    out = {}
    for f in raw_functions:
        if "%s/%d" % (f.get("uq"), len(f.get("params", []))) in ka:
            out[f.get("uq")] = True
    return out


def is_new_helper(f, idx):
    """f (a raw function) is NOT one of the anchors the rules bind to: either its qualified name is new, or it is an
    additional overload (a different number of parameters) standing beside a known overload of the same name -- the
    usual shape of `void helper(a) { helper(a, default); }` delegation.  A known function that merely gained a
    parameter (no known-arity sibling left) stays an anchor."""
    uq = f.get("uq")
    if f.get("lambda"):
        return True         # a closure has no name a rule could bind to: it is always read as part of its caller
    if uq not in known_functions():
        return True
    if "%s/%d" % (uq, len(f.get("params", []))) in known_arities():
        return False
    if any("(lambda at" in (p.get("t") or "") for p in f.get("params", [])):
        # an unknown-arity overload that receives a closure runs its caller's code: the caller's flow graph is
        # incomplete without it, whether or not the known overload still stands beside it
        return True
    return bool(idx.get(uq))


def _remap_node(d, noff, dmap):
    n = copy.deepcopy(d)
    n["i"] = d["i"] + noff
    for k in ID_KEYS:
        if isinstance(n.get(k), int) and not isinstance(n.get(k), bool):
            n[k] = n[k] + noff
    for k in LIST_KEYS:
        if k in n:
            n[k] = [(x + noff) if isinstance(x, int) else x for x in n[k]]
    if "decls" in n:
        for dd in n["decls"]:
            if "init" in dd:
                dd["init"] += noff
            if dd["d"] in dmap:
                dd["d"] = dmap[dd["d"]]
    if n.get("k") in ("DeclRefExpr", "AutoDtor") and n.get("d") in dmap:
        n["d"] = dmap[n["d"]]
    return n


def inlinable_calls(unit, fn, fd, force=None):
    """Calls that are spliced into fd: (block id, element index, call node id, target raw function, number of leading
    call arguments that are not parameters (1 for the closure object of a lambda call)).

    Three kinds of NEW helpers (name not in the frozen list) are followed:
      * member functions of the caller's own class invoked on `this` (or static),
      * free functions (e.g. a helper in a new detail namespace), whatever their arguments,
      * lambdas: calls of a closure's operator() whose body is in the unit (captures are by construction references
        to the enclosing function's own declarations, which keep their ids; a by-copy capture is treated like a
        by-reference one, which can only differ if the captured variable is modified between capture and call)."""
    kn = known_functions()
    out = []
    for b in fd["blocks"]:
        for idx, e in enumerate(b["elems"]):
            n = fd["nodes"][e]
            if n.get("k") not in ("CXXMemberCallExpr", "CallExpr", "CXXOperatorCallExpr") or n.get("inlined"):
                continue
            cal = n.get("callee")
            if not cal or cal.get("kind") not in ("method", "func", "op"):
                continue
            tgt = unit.raw_by_did.get(cal["did"])
            if force is not None:
                if not force(cal):
                    continue
            elif tgt is None or not is_new_helper(tgt, unit.anchor_idx):
                continue
            if tgt is None or not tgt.get("blocks") or tgt["did"] == fd["did"] or not tgt.get("cfgok", True):
                continue
            skip = 0
            if cal["kind"] == "op":
                if cal.get("op") != "()" or not tgt.get("lambda") or n["k"] != "CXXOperatorCallExpr":
                    continue
                skip = 1
            elif cal["kind"] == "func":
                if n["k"] != "CallExpr":
                    continue
            elif n["k"] == "CallExpr" and cal.get("static"):
                pass        # a new static member function (of this class or of a base) is a free function in disguise
            elif n["k"] == "CXXMemberCallExpr" and _object_of(fd, n) is not None and tgt.get("cls") == fd["_objs"][_object_of(fd, n)]["cls"]:
                pass        # a method of a NEW class called on a local object of that class: spliced with `this` rebound
            else:
                if tgt.get("clsqn") != fd.get("clsqn") and tgt.get("clsqn") != fd.get("lexclsqn"):
                    continue
                if n["k"] == "CXXMemberCallExpr":
                    obj = n.get("obj")
                    o = fd["nodes"][obj] if obj is not None else None
                    while o is not None and o.get("k") in ("ImplicitCastExpr",) and o.get("c"):
                        o = fd["nodes"][o["c"][0]]
                    if o is None or (o.get("k") != "CXXThisExpr" and not (o.get("k") == "DeclRefExpr" and o.get("dk") in ("ParmVar", "Var"))):
                        continue        # (a helper run on another object of the class -- `other.reset_()` -- is folded with
                                        # `this` standing for that object)
                elif n["k"] != "CallExpr" or not cal.get("static"):
                    continue
            out.append((b["id"], idx, e, tgt, skip))
    return out


def _strip_idx(nodes, i):
    hops = 0
    while i is not None and nodes[i].get("k") in ("ImplicitCastExpr", "ParenExpr") and nodes[i].get("c") and hops < 8:
        i, hops = nodes[i]["c"][0], hops + 1
    return i


def _object_of(fd, call):
    """decl id of the scalarised local object a member call is made on, or None"""
    objs = fd.get("_objs")
    if not objs or call.get("obj") is None:
        return None
    o = fd["nodes"][_strip_idx(fd["nodes"], call["obj"])]
    if o.get("k") == "DeclRefExpr" and o.get("d") in objs:
        return o["d"]
    return None


def find_local_objects(unit, fd, records):
    """Local variables of a NEW class type (a record whose name is not in the frozen list) that are only ever used as the
    object of calls to that class's own member functions (bodies available): {decl id: {cls, name, fields}}.  Such an
    object is scalar-replaced: constructor and member calls are spliced in with `this` rebound to the object, and its
    fields become pseudo locals -- so a set of lambdas over a few locals that was turned into a small helper struct reads
    like the lambdas again."""
    kr = known_records()
    if kr is None:
        return {}
    nodes = fd["nodes"]
    new_recs = {r["uq"]: r for r in records if r["uq"] not in kr and not r.get("lambda")}
    if not new_recs:
        return {}
    cands = {}
    for n in nodes:
        if n.get("k") == "DeclStmt":
            for d in n.get("decls", []):
                if d.get("rt") in new_recs and "init" in d:
                    ini = nodes[_strip_idx(nodes, d["init"])]
                    if ini.get("k") == "CXXConstructExpr" and ini.get("callee") and ini["callee"].get("did") in unit.raw_by_did \
                            and unit.raw_by_did[ini["callee"]["did"]].get("blocks"):
                        cands[d["d"]] = {"cls": d["rt"], "name": d.get("n", "obj"), "ctor_call": ini["i"], "rec": new_recs[d["rt"]]}
                    elif ini.get("k") == "InitListExpr" and len(ini.get("c", [])) == len(new_recs[d["rt"]].get("fields", [])) \
                            and not new_recs[d["rt"]].get("bases"):
                        # aggregate initialisation: the semantic form lists one initialiser per field, defaults included
                        cands[d["d"]] = {"cls": d["rt"], "name": d.get("n", "obj"), "agg_init": ini["i"], "decl_stmt": n["i"],
                                         "rec": new_recs[d["rt"]]}
    if not cands:
        return {}
    allowed = set()
    for n in nodes:
        if n.get("k") == "CXXMemberCallExpr" and n.get("obj") is not None and n.get("callee"):
            o = nodes[_strip_idx(nodes, n["obj"])]
            if o.get("k") == "DeclRefExpr" and o.get("d") in cands and n["callee"].get("cls") == cands[o["d"]]["cls"]:
                t = unit.raw_by_did.get(n["callee"].get("did"))
                if t is not None and t.get("blocks"):
                    allowed.add(o["i"])
    for n in nodes:
        # a direct read or write of a field (`obj.count`)
        if n.get("k") == "MemberExpr" and n.get("mk") == "Field" and n.get("c") and not n.get("arrow"):
            o = nodes[_strip_idx(nodes, n["c"][0])]
            if o.get("k") == "DeclRefExpr" and o.get("d") in cands:
                allowed.add(o["i"])
    for n in nodes:
        if n.get("k") == "DeclRefExpr" and n.get("d") in cands and n["i"] not in allowed:
            cands.pop(n["d"], None)         # escapes (address taken, copied, passed on): left alone
    return cands


def _scalarise_fields(fd, obj, info, aliases=()):
    """Direct field accesses of a scalar-replaced object become reads/writes of its pseudo locals; an aggregate
    initialiser becomes their declarations (a reference field is an alias of its initialiser).  `aliases`: reference
    parameters of folded helpers that are bound to the object."""
    nodes = fd["nodes"]
    names = {obj} | set(aliases)
    for n in nodes:
        if n.get("k") == "MemberExpr" and n.get("mk") == "Field" and n.get("c") and not n.get("arrow"):
            o = nodes[_strip_idx(nodes, n["c"][0])]
            if o.get("k") == "DeclRefExpr" and o.get("d") in names and not o.get("this_of"):
                fld = n.get("m")
                for k_ in ("m", "md", "mk", "arrow", "mc"):
                    n.pop(k_, None)
                n.update({"k": "DeclRefExpr", "c": [], "d": _pseudo(fd, obj, fld), "n": "%s.%s" % (info["name"], fld), "dk": "Var",
                          "local": True, "lv": True, "field_of": obj})
    if info.get("agg_init") is None:
        return
    ds = nodes[info["decl_stmt"]]
    il = nodes[info["agg_init"]]
    binds = []
    for fl, init in zip(info["rec"].get("fields", []), il.get("c", [])):
        pid = _pseudo(fd, obj, fl["n"])
        if nodes[init].get("k") == "CXXDefaultInitExpr" and nodes[init].get("c"):
            init = nodes[init]["c"][0]
        ft = fl.get("t", "")
        if ft.rstrip().endswith("&"):
            nid = len(nodes)
            nodes.append({"i": nid, "k": "ParamBind", "synthetic": True, "l": ds.get("l", ""), "d": pid,
                          "n": "%s.%s" % (info["name"], fl["n"]), "t": ft, "init": init, "c": []})
            binds.append(nid)
        else:
            ds["decls"].append({"d": pid, "n": "%s.%s" % (info["name"], fl["n"]), "t": ft, "init": init})
    for b in fd["blocks"]:
        if ds["i"] in b["elems"]:
            k = b["elems"].index(ds["i"])
            b["elems"][k + 1:k + 1] = binds
            break


def _scalarise_context_objects(fd, records):
    """A function split into phases that share a small context struct (`struct unlink_state { T *&current; owner next; T
    *previous; }; unlink_state st{a, b, c}; _phase1(st); _phase2(st, out);`): once the phases are folded in, the struct is a
    bundle of locals.  A local of a NEW aggregate type, aggregate-initialised with one initialiser per field, that is only
    ever accessed field by field -- directly or through reference parameters of folded helpers bound to it -- is replaced
    by one pseudo local per field (a reference field is an alias of its initialiser)."""
    kr = known_records()
    if kr is None:
        return
    nodes = fd["nodes"]
    new_recs = {r["uq"]: r for r in records if r["uq"] not in kr and not r.get("lambda")}
    if not new_recs:
        return
    done = set(fd.get("_objs") or ())
    cands = {}
    for n in nodes:
        if n.get("k") == "DeclStmt":
            for d in n.get("decls", []):
                if d.get("rt") in new_recs and "init" in d and d["d"] not in done:
                    ini = nodes[_strip_idx(nodes, d["init"])]
                    if ini.get("k") == "InitListExpr" and len(ini.get("c", [])) == len(new_recs[d["rt"]].get("fields", [])) \
                            and new_recs[d["rt"]].get("fields") and not new_recs[d["rt"]].get("bases"):
                        cands[d["d"]] = {"cls": d["rt"], "name": d.get("n", "obj"), "agg_init": ini["i"], "decl_stmt": n["i"],
                                         "rec": new_recs[d["rt"]]}
    if not cands:
        return
    alias_of = {}
    bind_inits = set()
    changed = True
    while changed:
        changed = False
        for n in nodes:
            if n.get("k") == "ParamBind" and n.get("init") is not None and n.get("d") not in alias_of:
                o = nodes[_strip_idx(nodes, n["init"])]
                if o.get("k") == "DeclRefExpr" and (o.get("d") in cands or o.get("d") in alias_of) and (n.get("t") or "").rstrip().endswith("&"):
                    alias_of[n["d"]] = o["d"] if o["d"] in cands else alias_of[o["d"]]
                    changed = True
    for n in nodes:
        if n.get("k") == "ParamBind" and n.get("init") is not None:
            bind_inits.add(_strip_idx(nodes, n["init"]))
    parent = {}
    for n in nodes:
        for c in n.get("c") or ():
            parent.setdefault(c, n["i"])
    def root(d):
        return d if d in cands else alias_of.get(d)
    for n in nodes:
        if n.get("k") != "DeclRefExpr" or root(n.get("d")) is None:
            continue
        r = root(n["d"])
        if r not in cands:
            continue
        i = n["i"]
        if i in bind_inits:
            continue
        p = parent.get(i)
        hops = 0
        while p is not None and nodes[p].get("k") in ("ImplicitCastExpr", "ParenExpr") and hops < 6:
            if p in bind_inits:
                break
            i, p, hops = p, parent.get(p), hops + 1
        if p is not None and p in bind_inits:
            continue
        pn = nodes[p] if p is not None else None
        if pn is not None and pn.get("k") == "MemberExpr" and pn.get("mk") == "Field" and not pn.get("arrow") and pn.get("c") and pn["c"][0] == i:
            continue
        if pn is not None and pn.get("inlined"):
            continue            # an argument of a call that was folded in: the binding above is what is left of it
        cands.pop(r, None)
    for obj, info in cands.items():
        _scalarise_fields(fd, obj, info, aliases=[a for a, r in alias_of.items() if r == obj])


def _scalarise_returned_aggregates(fd, records):
    """After folding: `auto m = helper(...)` (or `const auto [a, b] = helper(...)`) where the folded helper has one return and
    it builds a small NEW aggregate `{e1, e2}`, and the local is only ever accessed field by field: the local is replaced by one
    pseudo local per field, declared with the helper's initialisers -- a helper returning two values in a struct then reads
    like the two expressions spelled out in place."""
    kr = known_records()
    if kr is None:
        return
    nodes = fd["nodes"]
    new_recs = {r["uq"]: r for r in records if r["uq"] not in kr and not r.get("lambda") and not r.get("bases")}
    if not new_recs:
        return

    def strip_val(i):
        hops = 0
        while hops < 10:
            x = nodes[i]
            k = x.get("k")
            if k in ("ImplicitCastExpr", "ParenExpr", "ExprWithCleanups", "MaterializeTemporaryExpr", "CXXBindTemporaryExpr",
                     "CXXFunctionalCastExpr") and x.get("c"):
                i, hops = x["c"][0], hops + 1
                continue
            if k == "CXXConstructExpr" and len(x.get("args", [])) == 1 and x.get("callee") and (x["callee"].get("copy") or x["callee"].get("move")):
                i, hops = x["args"][0], hops + 1
                continue
            return i
        return i
    cands = {}
    for n in nodes:
        if n.get("k") != "DeclStmt":
            continue
        for d in n.get("decls", []):
            if d.get("rt") in new_recs and "init" in d and d["d"] not in fd.get("_objs", {}):
                i = strip_val(d["init"])
                x = nodes[i]
                if x.get("inlined") and isinstance(x.get("rets"), list) and len(x["rets"]) >= 1:
                    ils = [strip_val(r_) for r_ in x["rets"]]
                    nf = len(new_recs[d["rt"]].get("fields", []))
                    if all(nodes[j].get("k") == "InitListExpr" and len(nodes[j].get("c", [])) == nf for j in ils):
                        info = {"cls": d["rt"], "name": d.get("n") or "ret", "decl_stmt": n["i"], "rec": new_recs[d["rt"]]}
                        if len(ils) == 1:
                            info["agg_init"] = ils[0]
                        else:
                            info["agg_inits"] = list(zip(x["rets"], ils))     # several returns: one assignment per field at each
                        cands[d["d"]] = info
    if not cands:
        return
    allowed = set()
    for n in nodes:
        if n.get("k") == "MemberExpr" and n.get("mk") == "Field" and n.get("c") and not n.get("arrow"):
            o = nodes[_strip_idx(nodes, n["c"][0])]
            if o.get("k") == "DeclRefExpr" and o.get("d") in cands:
                allowed.add(o["i"])
    for n in nodes:
        if n.get("k") == "DeclRefExpr" and n.get("d") in cands and n["i"] not in allowed:
            cands.pop(n["d"], None)
    for obj, info in cands.items():
        _scalarise_fields(fd, obj, info)
        if info.get("agg_inits"):
            # declare the pseudo locals where the object was declared, and assign them where each return builds its aggregate
            ds = nodes[info["decl_stmt"]]
            for fl in info["rec"].get("fields", []):
                ds["decls"].append({"d": _pseudo(fd, obj, fl["n"]), "n": "%s.%s" % (info["name"], fl["n"]), "t": fl.get("t", "")})
            for ret_val, il_id in info["agg_inits"]:
                il = nodes[il_id]
                rnode = next((m for m in nodes if m.get("k") == "InlinedReturn" and m.get("val") == ret_val), None)
                if rnode is None:
                    continue
                new_ids = []
                for fl, init in zip(info["rec"].get("fields", []), il.get("c", [])):
                    if nodes[init].get("k") == "CXXDefaultInitExpr" and nodes[init].get("c"):
                        init = nodes[init]["c"][0]
                    pid = _pseudo(fd, obj, fl["n"])
                    ref = {"i": len(nodes), "k": "DeclRefExpr", "l": rnode.get("l", ""), "t": fl.get("t", ""), "lv": True, "d": pid,
                           "n": "%s.%s" % (info["name"], fl["n"]), "dk": "Var", "local": True, "c": [], "field_of": obj}
                    for k_ in ("bits", "sgn"):
                        if k_ in fl:
                            ref[k_] = fl[k_]
                    nodes.append(ref)
                    asg = {"i": len(nodes), "k": "BinaryOperator", "op": "=", "l": rnode.get("l", ""), "t": fl.get("t", ""), "lv": True,
                           "c": [ref["i"], init], "synthetic": True}
                    nodes.append(asg)
                    new_ids += [asg["i"]]
                for b in fd["blocks"]:
                    if rnode["i"] in b["elems"]:
                        k = b["elems"].index(rnode["i"])
                        b["elems"][k:k] = new_ids
                        break


_pseudo_next = [1_900_000_000]


def _pseudo(fd, obj, field):
    m = fd.setdefault("_pseudo", {})
    key = "%d.%s" % (obj, field)
    if key not in m:
        _pseudo_next[0] += 1
        m[key] = _pseudo_next[0]
    return m[key]


def _rebind_this(fd, new_nodes, obj, info):
    """In freshly spliced callee nodes: this->F becomes the pseudo local of field F of the object, a bare `this` becomes
    the object, constructor initialisers become declarations of the pseudo locals (a reference field is an alias)."""
    nodes = fd["nodes"]
    ftypes = {fl["n"]: fl.get("t", "") for fl in info["rec"].get("fields", [])}
    for n in new_nodes:
        if n.get("k") == "MemberExpr" and n.get("mk") == "Field" and n.get("c"):
            b = nodes[_strip_idx(nodes, n["c"][0])]
            if b.get("k") == "CXXThisExpr" or (b.get("k") == "DeclRefExpr" and b.get("this_of") == obj):
                fld = n.get("m")
                for k_ in ("m", "md", "mk", "arrow", "mc"):
                    n.pop(k_, None)
                n.update({"k": "DeclRefExpr", "c": [], "d": _pseudo(fd, obj, fld), "n": "%s.%s" % (info["name"], fld), "dk": "Var",
                          "local": True, "lv": True, "field_of": obj})
    for n in new_nodes:
        if n.get("k") == "CXXThisExpr":
            n.update({"k": "DeclRefExpr", "c": [], "d": obj, "n": info["name"], "dk": "Var", "local": True, "lv": True, "this_of": obj})
        elif n.get("k") == "CtorInit" and n.get("field") and n.get("fieldcls") == info["cls"] and n.get("init") is not None:
            fld, ft = n["field"], ftypes.get(n["field"], "")
            pid = _pseudo(fd, obj, fld)
            init = n["init"]
            if nodes[init].get("k") == "InitListExpr" and len(nodes[init].get("c", [])) == 1:
                init = nodes[init]["c"][0]          # `_f{e}`: the braces of a member initialiser
            for k_ in ("field", "fieldcls", "md", "implicit"):
                n.pop(k_, None)
            if ft.rstrip().endswith("&"):
                n.update({"k": "ParamBind", "d": pid, "n": "%s.%s" % (info["name"], fld), "t": ft, "init": init, "c": []})
            else:
                n.update({"k": "DeclStmt", "c": [init], "decls": [{"d": pid, "n": "%s.%s" % (info["name"], fld), "t": ft, "init": init}]})


def inline_once(unit, fd, bid, idx, call_id, tgt, instance, skip=0, this_obj=None):
    nodes = fd["nodes"]
    noff = len(nodes)
    call = nodes[call_id]
    # fresh declaration ids for everything declared in the callee
    dmap = {}
    for p in tgt.get("params", []):
        dmap[p["d"]] = p["d"] + DECL_OFFSET * instance
    for n in tgt["nodes"]:
        if n.get("k") == "DeclStmt":
            for dd in n.get("decls", []):
                dmap[dd["d"]] = dd["d"] + DECL_OFFSET * instance
    new_nodes = [_remap_node(n, noff, dmap) for n in tgt["nodes"]]
    if this_obj is None and call.get("k") == "CXXMemberCallExpr" and call.get("obj") is not None:
        o = nodes[_strip_idx(nodes, call["obj"])]
        if o.get("k") == "DeclRefExpr" and o.get("dk") in ("ParmVar", "Var") and not o.get("this_of"):
            # `this` of the callee is the address of that variable
            extra = []
            for n in new_nodes:
                if n.get("k") == "CXXThisExpr":
                    ref = copy.deepcopy(o)
                    ref["i"] = noff + len(new_nodes) + len(extra)
                    ref["c"] = []
                    extra.append(ref)
                    for k_ in list(n.keys()):
                        if k_ not in ("i", "l", "t"):
                            n.pop(k_)
                    n.update({"k": "UnaryOperator", "op": "&", "c": [ref["i"]]})
            new_nodes.extend(extra)
    rets = []
    for n in new_nodes:
        if n.get("k") == "ReturnStmt":
            n["k"] = "InlinedReturn"
            if "val" in n:
                rets.append(n["val"])
    nodes.extend(new_nodes)
    if this_obj is not None:
        _rebind_this(fd, new_nodes, this_obj, fd["_objs"][this_obj])
    # parameter bindings
    binds = []
    args = call.get("args", [])[skip:]
    for p, a in zip(tgt.get("params", []), args):
        nid = len(nodes)
        nodes.append({"i": nid, "k": "ParamBind", "synthetic": True, "l": call.get("l", ""), "d": dmap[p["d"]], "n": p["n"],
                      "t": p["t"], "init": a, "c": []})
        binds.append(nid)
    call["inlined"] = True
    call["rets"] = rets
    call["inlined_from"] = tgt["qn"]
    # blocks
    blocks = {b["id"]: b for b in fd["blocks"]}
    boff = max(blocks) + 1
    B = blocks[bid]
    b2 = {"id": boff, "elems": B["elems"][idx:], "succs": B["succs"], "preds": []}
    for k in ("term", "termkind", "cond", "noret", "label"):
        if k in B:
            b2[k] = B[k]
            if k != "label":
                del B[k]
    cmap = {b["id"]: b["id"] + boff + 1 for b in tgt["blocks"]}
    entry_succ = None
    for b in tgt["blocks"]:
        if b["id"] == tgt["entry"]:
            entry_succ = [s for s in b["succs"]]
    B["elems"] = B["elems"][:idx] + binds
    first = [s["b"] for s in entry_succ if s["b"] >= 0]
    # an empty callee (entry leads straight to its exit) continues directly after the call
    B["succs"] = [{"b": cmap[first[0]] if first and first[0] != tgt["exit"] else boff, "reach": True}]
    newb = [b2]
    for b in tgt["blocks"]:
        if b["id"] in (tgt["entry"],):
            continue
        if b["id"] == tgt["exit"]:
            continue
        nb = {"id": cmap[b["id"]], "elems": [e + noff for e in b["elems"]], "succs": []}
        for k in ("term", "cond", "label"):
            if k in b:
                nb[k] = b[k] + noff
        for k in ("termkind", "noret"):
            if k in b:
                nb[k] = b[k]
        for s in b["succs"]:
            t = s["b"]
            if t == tgt["exit"]:
                if b.get("noret"):
                    nb["succs"].append({"b": fd["exit"], "reach": s["reach"]})
                else:
                    nb["succs"].append({"b": boff, "reach": s["reach"]})
            elif t < 0:
                nb["succs"].append({"b": t, "reach": s["reach"]})
            else:
                nb["succs"].append({"b": cmap[t], "reach": s["reach"]})
        newb.append(nb)
    # jump threading: when the inlined call *is* the branch condition of the continuation block (possibly under
    # casts / negations) and a callee path returns a boolean constant, that path continues directly at the matching
    # branch target -- `while(helper())` with `return false` on the exit path keeps its exact loop structure
    chain, neg = [], False
    c = b2.get("cond")
    while c is not None:
        chain.append(c)
        if c == call_id:
            break
        cn = nodes[c]
        if cn.get("k") == "UnaryOperator" and cn.get("op") == "!":
            neg = not neg
        elif cn.get("k") not in ("ImplicitCastExpr", "ParenExpr", "ExprWithCleanups", "CXXBindTemporaryExpr", "MaterializeTemporaryExpr"):
            c = None
            break
        c = cn["c"][0] if cn.get("c") else None
    live2 = [s_ for s_ in b2["succs"]]
    if c == call_id and len(live2) == 2 and set(b2["elems"]) <= set(chain) and b2.get("termkind") in (
            "IfStmt", "WhileStmt", "ForStmt", "DoStmt", "ConditionalOperator"):
        def const_bool(i):
            seen = 0
            while i is not None and seen < 8:
                x = nodes[i]
                if x.get("k") == "CXXBoolLiteralExpr":
                    return bool(x.get("bv"))
                if x.get("k") in ("ImplicitCastExpr", "ParenExpr", "ExprWithCleanups") and x.get("c"):
                    i = x["c"][0]
                    seen += 1
                    continue
                return None
            return None
        for nb in newb[1:]:
            rv = None
            for e in nb["elems"]:
                x = nodes[e]
                if x.get("k") == "InlinedReturn":
                    rv = const_bool(x.get("val")) if "val" in x else None
            if rv is None:
                continue
            truth = (not rv) if neg else rv
            tgt_succ = live2[0 if truth else 1]
            nb["succs"] = [({"b": tgt_succ["b"], "reach": s_["reach"] and tgt_succ["reach"]} if s_["b"] == boff else s_) for s_ in nb["succs"]]
            nb["threaded"] = True
    fd["blocks"].extend(newb)


def inline_unit(unit_json):
    """Rewrites the functions of a frgx unit in place; returns the set of helper dids that were inlined
    everywhere they are called (they are dropped from the function list by the caller)."""
    class U:
        pass
    u = U()
    u.raw_by_did = {f["did"]: f for f in unit_json["functions"]}
    originals = {did: copy.deepcopy(f) for did, f in u.raw_by_did.items()}
    u.anchor_idx = anchor_index(unit_json["functions"])
    u.raw_by_did = originals        # always splice pristine callee bodies (nested helpers are inlined on the next pass)
    inlined_into = set()
    instance = 0
    obj_classes = set()
    for fd in unit_json["functions"]:
        if not fd.get("blocks"):
            continue
        fd["_objs"] = find_local_objects(u, fd, unit_json.get("records", []))
        for obj, info in list(fd["_objs"].items()):
            _scalarise_fields(fd, obj, info)
            if info.get("agg_init") is not None:
                obj_classes.add(info["cls"])
                continue
            # the constructor first: its initialisers declare the pseudo locals
            where = None
            for b in fd["blocks"]:
                if info["ctor_call"] in b["elems"]:
                    where = (b["id"], b["elems"].index(info["ctor_call"]))
            ct = u.raw_by_did[fd["nodes"][info["ctor_call"]]["callee"]["did"]]
            if where is None:
                fd["_objs"].pop(obj)
                continue
            instance += 1
            inline_once(u, fd, where[0], where[1], info["ctor_call"], ct, instance, 0, this_obj=obj)
            inlined_into.add(ct["did"])
            obj_classes.add(info["cls"])
        for _round in range(160):
            calls = inlinable_calls(u, None, fd)
            if not calls:
                break
            # one at a time: indices shift after a splice
            bid, idx, call_id, tgt, skip = calls[0]
            instance += 1
            inline_once(u, fd, bid, idx, call_id, tgt, instance, skip, this_obj=_object_of(fd, fd["nodes"][call_id]))
            inlined_into.add(tgt["did"])
        _scalarise_returned_aggregates(fd, unit_json.get("records", []))
        _scalarise_context_objects(fd, unit_json.get("records", []))
    kn = known_functions()
    drop = set()
    for did in inlined_into:
        f = originals[did]
        if f.get("cls") in obj_classes and is_new_helper(f, u.anchor_idx):
            drop.add(did)
            continue
        if is_new_helper(f, u.anchor_idx) and (f.get("access") in ("private", "protected") or f.get("lambda") or f.get("kind") == "func"):
            drop.add(did)
    return drop


def inline_variant(unit, fn, select, rounds=24):
    """A copy of `fn` (an ir.Fn of `unit`) with every call accepted by select(callee dict) spliced in, whether or not
    the callee is a known anchor.  Used by rules that state a property of a function *together with* its private
    helpers, so that the rule reads the same whether the helpers exist or have been folded into the caller."""
    from .ir import Fn

    class U:
        pass
    u = U()
    u.raw_by_did = {f.d["did"]: f.d for f in unit.functions}
    u.anchor_idx = anchor_index(u.raw_by_did.values())
    fd = copy.deepcopy(fn.d)
    fd.setdefault("_objs", {})
    instance = 500
    for _round in range(rounds):
        calls = inlinable_calls(u, None, fd, force=select)
        if not calls:
            break
        bid, idx, call_id, tgt, skip = calls[0]
        instance += 1
        inline_once(u, fd, bid, idx, call_id, copy.deepcopy(tgt), instance, skip)
    return Fn(unit, fd)
