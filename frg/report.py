"""Per-check context: rule instances, verdicts, evidence, known findings."""
import json
import os
import sys
import time
import hashlib

from .ir import VERIF, AnalysisBroken

EVID = os.path.join(VERIF, "evidence")
KNOWN = os.path.join(VERIF, "known_findings.json")


def load_known():
    if not os.path.exists(KNOWN):
        return []
    with open(KNOWN) as f:
        return json.load(f).get("findings", [])


class Ctx:
    def __init__(self, prop, tier="quick", seed=0, selftest=False):
        self.prop = prop
        self.tier = tier
        self.seed = seed
        self.selftest = selftest
        self.t0 = time.time()
        self.instances = []       # dicts
        self.broken_msgs = []
        self.units = {}
        self.minima = {}          # rule -> min instance count
        self.notes = []
        self.rules_text = {}      # rule -> one-line description
        self.cross = []

    # ---- recording ----------------------------------------------------
    def rule(self, rule, text, minimum=1):
        """Declare a rule: description and confirmed minimum instance count."""
        self.rules_text[rule] = text
        self.minima[rule] = max(self.minima.get(rule, 0), minimum)

    def inst(self, rule, instance, ok, loc="", detail="", fn=None, nontrivial=True):
        """Record one decided rule instance."""
        self.instances.append({
            "rule": rule, "instance": instance, "ok": bool(ok), "loc": loc,
            "detail": detail, "fn": fn.qn if fn is not None else None,
            "nontrivial": bool(nontrivial),
        })
        return ok

    def broken(self, msg):
        self.broken_msgs.append(msg)

    def note(self, msg):
        self.notes.append(msg)

    def use_unit(self, u):
        self.units[u.name] = {"functions": len(u.functions), "records": len(u.records),
                              "errors": u.errors}

    # ---- verdict ------------------------------------------------------
    def failing(self):
        """Distinct failing (rule, instance) pairs."""
        seen = {}
        for i in self.instances:
            if not i["ok"]:
                seen.setdefault((i["rule"], i["instance"]), i)
        return seen

    def check_minima(self):
        counts = {}
        for i in self.instances:
            counts[i["rule"]] = counts.get(i["rule"], 0) + 1
        for r, m in self.minima.items():
            if counts.get(r, 0) < m:
                self.broken("rule %s matched %d instance(s), confirmed minimum is %d "
                            "(anchor vanished or extractor no longer sees the construct)"
                            % (r, counts.get(r, 0), m))
        return counts

    def finish(self, explanation, assumptions=(), write=True):
        if os.environ.get("FRG_NO_EVIDENCE"):
            write = False
        counts = self.check_minima()
        fails = self.failing()
        if os.environ.get("FRG_DUMP_RULE"):         # debugging aid: list the instances of one rule
            for i in self.instances:
                if os.environ["FRG_DUMP_RULE"] in i["rule"]:
                    print("  [%s] %s %s: %s" % ("ok" if i["ok"] else "VIOLATED", i["rule"], i["instance"], i["detail"][:200]))
        known = [k for k in load_known() if (k.get("property") == self.prop or self.prop in k.get("also", ())) and k.get("status") == "open"]
        known_keys = {(k["rule"], k["instance"]): k for k in known}
        viol = []
        kf = []
        for key, inst in fails.items():
            if key in known_keys:
                kf.append((inst, known_keys[key]))
            else:
                viol.append(inst)
        out_lines = []
        os.makedirs(os.path.join(EVID, "reports"), exist_ok=True)
        for inst, k in kf:
            out_lines.append("KNOWN-FINDING: property=%s rule=%s instance=%s at %s — %s" % (
                self.prop, inst["rule"], inst["instance"], inst["loc"], k.get("what", inst["detail"])))
        for inst in viol:
            h = hashlib.sha1(("%s|%s" % (inst["rule"], inst["instance"])).encode()).hexdigest()[:10]
            rp = os.path.join(EVID, "reports", "%s-%s-%s.json" % (self.prop, inst["rule"], h))
            if write:
                with open(rp, "w") as f:
                    json.dump({"property": self.prop, "rule": inst["rule"], "rule_text":
                               self.rules_text.get(inst["rule"], ""), "instance": inst["instance"],
                               "location": inst["loc"], "function": inst["fn"], "detail": inst["detail"],
                               "tier": self.tier}, f, indent=1)
            out_lines.append("  %s: rule %s violated by %s%s: %s" % (
                inst["loc"], inst["rule"], inst["instance"],
                (" in " + inst["fn"]) if inst["fn"] else "", inst["detail"]))
            out_lines.append("VIOLATION property=%s replay=%s" % (self.prop, rp))
        distinct = {(i["rule"], i["instance"]) for i in self.instances if i["nontrivial"]}
        samples = []
        per_rule_seen = {}
        for i in self.instances:
            c = per_rule_seen.get(i["rule"], 0)
            if c < 2:
                per_rule_seen[i["rule"]] = c + 1
                samples.append({"rule": i["rule"], "instance": i["instance"], "loc": i["loc"],
                                "function": i["fn"], "verdict": "holds" if i["ok"] else "VIOLATED",
                                "detail": i["detail"]})
        ev = {
            "property_id": self.prop,
            "tier": self.tier,
            "seed": self.seed,
            "level": "other",
            "coverage": {
                "explanation": explanation,
                "evaluations": len(self.instances),
                "distinct_nontrivial": len(distinct),
                "rule": "one evaluation = one (rule, construct) pair decided on the resolved program of "
                        "/repo's current tree; distinct = distinct (rule, instance) pairs; non-trivial = "
                        "the rule's premise matched a concrete construct (no vacuous passes are counted)",
                "samples": samples[:40],
                "obligations": len(self.instances),
                "discharged": sum(1 for i in self.instances if i["ok"]),
                "rules": {r: {"text": self.rules_text.get(r, ""), "instances": counts.get(r, 0),
                              "confirmed_minimum": self.minima.get(r, 0)} for r in
                          sorted(set(list(counts) + list(self.rules_text)))},
                "units": self.units,
                "functions_analysed": sum(u["functions"] for u in self.units.values()),
                "known_findings_reported": [k[1].get("instance") for k in kf],
                "notes": self.notes,
                "cross_checks": self.cross,
                "analysis_broken": self.broken_msgs,
                "exhaustive": False,
            },
            "assumptions": list(assumptions),
            "wall_s": round(time.time() - self.t0, 3),
            "violations": len(viol),
        }
        if write:
            os.makedirs(EVID, exist_ok=True)
            with open(os.path.join(EVID, "%s.json" % self.prop), "w") as f:
                json.dump(ev, f, indent=1)
        for l in out_lines:
            print(l)
        if self.broken_msgs:
            for m in self.broken_msgs:
                print("ANALYSIS-BROKEN property=%s: %s" % (self.prop, m))
            return 1 if viol else 2
        print("%s [%s]: %d rule instances over %d rules, %d violated (%d known), units=%s, %.1fs" % (
            self.prop, self.tier, len(self.instances), len(counts), len(fails), len(kf),
            ",".join(self.units), time.time() - self.t0))
        return 1 if viol else 0
