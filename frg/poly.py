"""Tiny polynomial normal form over symbolic non-negative quantities (lengths, sizeof(Char))."""
from .ir import path, canon, std_unwrap


class Poly:
    """dict: monomial (sorted tuple of symbols) -> integer coefficient"""

    def __init__(self, terms=None):
        self.t = {k: v for k, v in (terms or {}).items() if v != 0}

    @staticmethod
    def const(c):
        return Poly({(): c})

    @staticmethod
    def sym(s):
        return Poly({(s,): 1})

    def __add__(self, o):
        r = dict(self.t)
        for k, v in o.t.items():
            r[k] = r.get(k, 0) + v
        return Poly(r)

    def __sub__(self, o):
        r = dict(self.t)
        for k, v in o.t.items():
            r[k] = r.get(k, 0) - v
        return Poly(r)

    def __mul__(self, o):
        r = {}
        for k1, v1 in self.t.items():
            for k2, v2 in o.t.items():
                k = tuple(sorted(k1 + k2))
                r[k] = r.get(k, 0) + v1 * v2
        return Poly(r)

    def __eq__(self, o):
        return isinstance(o, Poly) and self.t == o.t

    def __hash__(self):
        return hash(tuple(sorted(self.t.items())))

    def nonneg(self, ge_one=()):
        """Sufficient check that the polynomial is >= 0 for all symbol values >= 0, with the symbols in
        `ge_one` >= 1: substitute s = 1 + s' for those and require all coefficients >= 0."""
        p = self
        for s in ge_one:
            q = {}
            for k, v in p.t.items():
                n = k.count(s)
                rest = tuple(x for x in k if x != s)
                # (1 + s')^n expansion
                from math import comb
                for j in range(n + 1):
                    kk = tuple(sorted(rest + (s + "'",) * j))
                    q[kk] = q.get(kk, 0) + v * comb(n, j)
            p = Poly(q)
        return all(v >= 0 for v in p.t.values())

    def __repr__(self):
        if not self.t:
            return "0"
        parts = []
        for k, v in sorted(self.t.items()):
            m = "*".join(k)
            parts.append(("%d" % v) if not m else (m if v == 1 else "%d*%s" % (v, m)))
        return " + ".join(parts)


def to_poly(n, leaf, depth=0):
    """Expression -> Poly. leaf(node) -> Poly or None for non-arithmetic leaves (fields, calls, locals)."""
    n = n.strip()
    if depth > 40:
        return None
    k = n.kind
    if k == "UnaryExprOrTypeTraitExpr":
        r = leaf(n)
        if r is not None:
            return r
    c = n.cv() if k not in ("DeclRefExpr", "MemberExpr") else None
    if c is not None:
        return Poly.const(c)
    if k == "BinaryOperator" and n.op in ("+", "-", "*"):
        a = to_poly(n.children[0], leaf, depth + 1)
        b = to_poly(n.children[1], leaf, depth + 1)
        if a is None or b is None:
            return None
        return a + b if n.op == "+" else (a - b if n.op == "-" else a * b)
    return leaf(n)
