"""Tiny polynomial normal form over symbolic non-negative quantities (lengths, sizeof(Char))."""
from .ir import path, canon, std_unwrap


class Poly:
    """dict: monomial (sorted tuple of symbols) -> integer coefficient"""

    def __init__(self, terms=None):
        self.t = {k: v for k, v in (terms or {}).items() if v != 0}

    @staticmethod
    def const(c):
        return Poly({(): c})

    @staticmethod
    def sym(s):
        return Poly({(s,): 1})

    def __add__(self, o):
        r = dict(self.t)
        for k, v in o.t.items():
            r[k] = r.get(k, 0) + v
        return Poly(r)

    def __sub__(self, o):
        r = dict(self.t)
        for k, v in o.t.items():
            r[k] = r.get(k, 0) - v
        return Poly(r)

    def __mul__(self, o):
        r = {}
        for k1, v1 in self.t.items():
            for k2, v2 in o.t.items():
                k = tuple(sorted(k1 + k2))
                r[k] = r.get(k, 0) + v1 * v2
        return Poly(r)

    def __eq__(self, o):
        return isinstance(o, Poly) and self.t == o.t

    def __hash__(self):
        return hash(tuple(sorted(self.t.items())))

    def nonneg(self, ge_one=()):
        """Sufficient check that the polynomial is >= 0 for all symbol values >= 0, with the symbols in
        `ge_one` >= 1: substitute s = 1 + s' for those and require all coefficients >= 0."""
        p = self
        for s in ge_one:
            q = {}
            for k, v in p.t.items():
                n = k.count(s)
                rest = tuple(x for x in k if x != s)
                # (1 + s')^n expansion
                from math import comb
                for j in range(n + 1):
                    kk = tuple(sorted(rest + (s + "'",) * j))
                    q[kk] = q.get(kk, 0) + v * comb(n, j)
            p = Poly(q)
        return all(v >= 0 for v in p.t.values())

    def __repr__(self):
        if not self.t:
            return "0"
        parts = []
        for k, v in sorted(self.t.items()):
            m = "*".join(k)
            parts.append(("%d" % v) if not m else (m if v == 1 else "%d*%s" % (v, m)))
        return " + ".join(parts)


def to_poly(n, leaf, depth=0):
    """Expression -> Poly. leaf(node) -> Poly or None for non-arithmetic leaves (fields, calls, locals)."""
    n = n.strip()
    if depth > 40:
        return None
    k = n.kind
    if k == "UnaryExprOrTypeTraitExpr":
        r = leaf(n)
        if r is not None:
            return r
    c = n.cv() if k not in ("DeclRefExpr", "MemberExpr") else None
    if c is not None:
        return Poly.const(c)
    if k == "BinaryOperator" and n.op in ("+", "-", "*"):
        a = to_poly(n.children[0], leaf, depth + 1)
        b = to_poly(n.children[1], leaf, depth + 1)
        if a is None or b is None:
            return None
        return a + b if n.op == "+" else (a - b if n.op == "-" else a * b)
    return leaf(n)


def lockstep_env(fn, use, leaf):
    """{decl id: Poly} for locals whose value at element `use` follows from loop lock-step:
    a local v initialised to E0 before a counting loop and advanced by a constant c_v exactly once per iteration, next
    to the loop's induction variable i (initialised to I0, advanced by c_i exactly once per iteration) satisfies
        inside the body, before the advances:   v = E0 + (i - I0) * c_v / c_i
        after the loop (exit by `i < B` failing, c_i = 1, single exit):   i = B  and  v = E0 + (B - I0) * c_v
    Only exact integer ratios are used.  `leaf` maps other expressions to Poly (as for to_poly)."""
    from . import flow
    env = {}
    pos = fn.positions()
    if use.id not in pos:
        # find enclosing CFG element
        cur, hops = use, 0
        while cur is not None and cur.id not in pos and hops < 60:
            cur = fn.parent(cur)
            hops += 1
        if cur is None or cur.id not in pos:
            return env
        use = cur
    ub = pos[use.id][0]
    dom = fn.dominators()
    for lp in flow.natural_loops(fn):
        ind = flow.induction(fn, lp)
        # every local stepped by a constant exactly once per iteration
        steps = {}
        for b in lp.body:
            for n in fn.blocks[b].nodes():
                v, c = None, None
                if n.kind == "UnaryOperator" and n.op in ("++", "--"):
                    v, c = flow._var_of(n.children[0]), (1 if n.op == "++" else -1)
                elif n.kind == "CompoundAssignOperator" and n.op in ("+=", "-="):
                    k = n.children[1].strip().cv()
                    if k is not None:
                        v, c = flow._var_of(n.children[0]), (k if n.op == "+=" else -k)
                elif n.kind in ("BinaryOperator", "CompoundAssignOperator") and n.op.endswith("=") and n.op not in ("==", "!=", "<=", ">="):
                    v, c = flow._var_of(n.children[0]), None
                if v is not None:
                    steps.setdefault(v, []).append((n, c, b))
        once = {}
        for v, lst in steps.items():
            if len(lst) == 1 and lst[0][1] is not None and all(lst[0][2] == l or lst[0][2] in dom.get(l, ()) for l in lp.latches):
                once[v] = lst[0]
        ivs = [v for v in ind if v in once and ind[v].get("init") is not None]
        if not ivs:
            continue
        i = ivs[0]
        I0 = to_poly(ind[i]["init"], leaf)
        ci = once[i][1]
        if I0 is None or ci == 0:
            continue
        inside = ub in lp.body
        after = (not inside) and all(lp.header in dom.get(ub, ()) for _ in (0,))
        exits = [(b, s) for b in lp.body for s in fn.blocks[b].live_succs() if s not in lp.body]
        single_exit = len(exits) == 1 and exits[0][0] == lp.header
        bound = ind[i].get("bound")
        for v, (sn, cv_, sb) in once.items():
            if v == i:
                continue
            # initial value of v: the last definition before the loop
            init = None
            for b in fn.blocks.values():
                if b.id in lp.body:
                    continue
                for n in b.nodes():
                    if n.kind == "DeclStmt":
                        for d in n.get("decls", []):
                            if d["d"] == v and "init" in d and (b.id == lp.header or b.id in dom.get(lp.header, ())):
                                init = fn.node(d["init"])
                    elif n.kind == "BinaryOperator" and n.op == "=" and flow._var_of(n.children[0]) == v and b.id in dom.get(lp.header, ()):
                        init = n.children[1]
            if init is None:
                continue
            E0 = to_poly(init, leaf)
            if E0 is None or cv_ % ci != 0:
                continue
            ratio = cv_ // ci
            if inside:
                # use must come before both advances in the iteration
                if fn.dominates(use.id, sn.id) and fn.dominates(use.id, once[i][0].id):
                    env[v] = E0 + (Poly.sym("v%d" % i) - I0) * Poly.const(ratio)
            elif after and single_exit and bound is not None and bound[0] == "<" and ci == 1:
                B = to_poly(bound[1], leaf)
                if B is not None:
                    env[v] = E0 + (B - I0) * Poly.const(ratio)
                    env.setdefault(i, B)
    return env
