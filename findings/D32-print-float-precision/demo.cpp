// C20 / d3: a precision that the (fixed) digit parser of printf_format ACCEPTS
// still overflows `int` in print_float: total_length = has_sign + int_length + 1 + precision.
#include <new>
#include <string.h>
#include <stdio.h>
#include <stdlib.h>
#include <stdarg.h>
#include <limits.h>
#include <unistd.h>
#include <frg/printf.hpp>

extern "C" void frg_panic(const char *m) { fprintf(stderr, "frg_panic: %s\n", m); exit(3); }
extern "C" void frg_log(const char *m) { fprintf(stderr, "frg_log: %s\n", m); }

struct count_sink {               // discards the output, only counts it
	unsigned long n = 0;
	void append(char) { n++; }
	void append(const char *s) { n += strlen(s); }
};

struct agent {
	frg::expected<frg::format_error> operator() (char c) { sink->append(c); return frg::success; }
	frg::expected<frg::format_error> operator() (const char *, size_t n) { sink->n += n; return frg::success; }
	frg::expected<frg::format_error> operator() (char t, frg::format_options opts,
			frg::printf_size_mod szmod) {
		switch(t) {
		case 'c': case 'p': case 's':
			frg::do_printf_chars(*sink, t, opts, szmod, vsp); break;
		case 'd': case 'i': case 'o': case 'x': case 'X': case 'b': case 'B': case 'u':
			frg::do_printf_ints(*sink, t, opts, szmod, vsp); break;
		case 'f': case 'F':
			frg::do_printf_floats(*sink, t, opts, szmod, vsp); break;
		default:
			return frg::format_error::agent_error;
		}
		return frg::success;
	}
	count_sink *sink;
	frg::va_struct *vsp;
};

static void frg_fmt(const char *format, ...) {
	va_list args;
	va_start(args, format);
	frg::va_struct vs;
	frg::arg arg_list[NL_ARGMAX + 1] = {};
	vs.arg_list = arg_list;
	va_copy(vs.args, args);
	count_sink sink;
	auto res = frg::printf_format(agent{&sink, &vs}, format, &vs);
	va_end(args);
	printf("ok=%d, %lu chars\n", (int)!!res, sink.n);
}

int main() {
	// 2147483639 passes FRG_ASSERT(value <= (INT_MAX - 9) / 10) in printf.hpp:176.
	// No panic, no assertion: plain signed overflow (formatting.hpp:281).
	frg_fmt("%.2147483639f", 12345678.0);
	return 0;
}
