// C20 / d4: frg::fmt("{}", c) / "{:d}" / "{:x}" with a char argument whose value is
// negative (any non-ASCII byte where char is signed) indexes the digit table with a
// NEGATIVE index: digits[number % radix] in print_digits.
#include <new>
#include <string.h>
#include <stdio.h>
#include <stdlib.h>
#include <string>
#include <frg/formatting.hpp>

extern "C" void frg_panic(const char *m) { fprintf(stderr, "frg_panic: %s\n", m); exit(3); }
extern "C" void frg_log(const char *m) { fprintf(stderr, "frg_log: %s\n", m); }

struct str_sink {
	std::string out;
	void append(char c) { out.push_back(c); }
	void append(const char *s) { out.append(s); }
};

int main() {
	// exact-size format buffer, no terminator needed (string_view)
	char *f = (char *)malloc(2); f[0] = '{'; f[1] = '}';
	str_sink sink;

	char ok = 100;
	frg::format(frg::fmt(frg::string_view{f, 2}, ok), sink);
	printf("char 100  -> [%s]\n", sink.out.c_str());
	sink.out.clear();

	char c = (char)0xE9;   // e.g. a Latin-1 / UTF-8 byte; value -23 where char is signed
	frg::format(frg::fmt(frg::string_view{f, 2}, c), sink);
	printf("char 0xE9 -> [%s] (expected \"-23\")\n", sink.out.c_str());
	free(f);
	return sink.out == "-23" ? 0 : 1;
}
