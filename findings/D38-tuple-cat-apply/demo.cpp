// C17 / d1: frg::tuple_cat moves out of LVALUE argument tuples.
// Reference: std::tuple_cat copies from lvalue tuples and leaves them intact.
#include <new>
#include <string.h>
#include <string>
#include <tuple>
#include <cstdio>
#include <frg/tuple.hpp>

extern "C" void frg_panic(const char *s) { std::fprintf(stderr, "frg_panic: %s\n", s); __builtin_trap(); }
extern "C" void frg_log(const char *s) { std::fprintf(stderr, "frg_log: %s\n", s); }

int main() {
	const std::string A = "first element, long enough to defeat the small string optimisation";
	const std::string B = "second element, also long enough to live on the heap for sure";

	// reference behaviour
	std::tuple<std::string, int> sa{A, 1};
	std::tuple<std::string> sb{B};
	auto sc = std::tuple_cat(sa, sb);               // lvalues: copied
	bool std_ok = std::get<0>(sa) == A && std::get<0>(sb) == B
		&& std::get<0>(sc) == A && std::get<1>(sc) == 1 && std::get<2>(sc) == B;

	// frigg
	frg::tuple<std::string, int> fa{A, 1};
	frg::tuple<std::string> fb{B};
	auto fc = frg::tuple_cat(fa, fb);               // lvalues: must be copied as well
	bool res_ok = fc.get<0>() == A && fc.get<1>() == 1 && fc.get<2>() == B;
	bool src_ok = fa.get<0>() == A && fb.get<0>() == B;

	std::printf("std : sources intact + result correct: %d\n", std_ok);
	std::printf("frg : result correct: %d\n", res_ok);
	std::printf("frg : fa.get<0>() = \"%s\" (expected \"%s\")\n", fa.get<0>().c_str(), A.c_str());
	std::printf("frg : fb.get<0>() = \"%s\" (expected \"%s\")\n", fb.get<0>().c_str(), B.c_str());

	if(!std_ok) { std::printf("reference broken?!\n"); return 2; }
	if(!res_ok || !src_ok) {
		std::printf("FAIL: frg::tuple_cat(lvalue, lvalue) changed the value held by its source tuples\n");
		return 1;
	}
	std::printf("OK\n");
	return 0;
}
