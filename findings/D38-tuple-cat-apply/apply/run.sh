#!/bin/sh
cd "$(dirname "$0")"; out=$(mktemp -d); trap 'rm -rf "$out"' EXIT
g++ -std=c++20 -O1 -g -Wall -fsanitize=address,undefined -I"${FRG_REPO:-/repo}/include" demo.cpp -o $out/demo && $out/demo
