// C17 / d3: frg::apply does not preserve reference identity / values:
//  (1) applying an rvalue tuple that holds an LVALUE REFERENCE (tuple<std::string&>) passes the
//      referent as an rvalue, so the external object gets moved-from (std::apply passes an lvalue);
//  (2) the result of a functor returning a reference is decayed to a copy (return type `auto`),
//      std::apply returns decltype(auto), i.e. the very object.
#include <new>
#include <string.h>
#include <string>
#include <tuple>
#include <cstdio>
#include <frg/tuple.hpp>

extern "C" void frg_panic(const char *s) { std::fprintf(stderr, "frg_panic: %s\n", s); __builtin_trap(); }
extern "C" void frg_log(const char *s) { std::fprintf(stderr, "frg_log: %s\n", s); }

static size_t consume(std::string s, int n) { return s.size() + n; }

struct Cat {
	const char *operator()(std::string &) const { return "lvalue"; }
	const char *operator()(std::string &&) const { return "rvalue"; }
};

int main() {
	int failures = 0;
	const std::string TEXT = "a string owned by the caller, only referenced from the tuple.......";

	// (1) tuple of references: the referent must survive apply()
	std::string s_std = TEXT, s_frg = TEXT;
	size_t r_std = std::apply(consume, std::tuple<std::string &, int>(s_std, 1));
	size_t r_frg = frg::apply(consume, frg::tuple<std::string &, int>(s_frg, 1));
	std::printf("(1) results            std=%zu frg=%zu\n", r_std, r_frg);
	std::printf("(1) referent after std::apply: %zu chars\n", s_std.size());
	std::printf("(1) referent after frg::apply: %zu chars\n", s_frg.size());
	if(s_std != TEXT) { std::printf("reference broken?!\n"); return 2; }
	if(s_frg != TEXT) { std::printf("    MISMATCH: frg::apply moved from an object the tuple only referenced\n"); failures++; }

	const char *c_std = std::apply(Cat{}, std::tuple<std::string &>(s_std));
	const char *c_frg = frg::apply(Cat{}, frg::tuple<std::string &>(s_frg));
	std::printf("(1) T& element of rvalue tuple is passed as: std=%s frg=%s\n", c_std, c_frg);
	if(strcmp(c_std, c_frg)) { std::printf("    MISMATCH\n"); failures++; }

	// (2) identity of a returned reference
	int x = 7;
	auto ident = [](int &r) -> int & { return r; };
	std::tuple<int &> st(x);
	frg::tuple<int &> ft(x);
	auto &&rs = std::apply(ident, st);
	auto &&rf = frg::apply(ident, ft);
	std::printf("(2) &x=%p  &std::apply(...)=%p  &frg::apply(...)=%p\n", (void *)&x, (void *)&rs, (void *)&rf);
	if(&rs != &x) { std::printf("reference broken?!\n"); return 2; }
	if(&rf != &x) { std::printf("    MISMATCH: frg::apply returned a copy, not the object the functor returned\n"); failures++; }

	if(failures) { std::printf("FAIL: %d mismatches against std::apply\n", failures); return 1; }
	std::printf("OK\n");
	return 0;
}
