// frg::construct_n(allocator, n, args...) forwards its arguments once per element.
// This is the bug that commit 222496d ("resize(n, args...) forwarded its arguments once per
// new element") repaired in vector/small_vector; the same loop in allocation.hpp was left as is.
// With an rvalue argument the first element steals it and elements 1..n-1 are built from a
// moved-from object. Reference: std::vector<T>(n, value) / frg::vector::resize(n, value).
#include <new>
#include <string.h>
#include <stdio.h>
#include <stdlib.h>
#include <string>
#include <vector>
#include <frg/allocation.hpp>
#include <frg/vector.hpp>

struct mallocator {
	void *allocate(size_t n) { return malloc(n); }
	void free(void *p) { ::free(p); }
	void deallocate(void *p, size_t) { ::free(p); }
};

int main() {
	setvbuf(stdout, nullptr, _IONBF, 0);
	mallocator a;
	const char *text = "a value that is long enough to live on the heap";

	// Reference 1: the standard library.
	std::vector<std::string> ref(3, std::string{text});
	// Reference 2: frigg's own (repaired) resize.
	frg::vector<std::string, mallocator> fv{a};
	fv.resize(3, std::string{text});

	std::string *p = frg::construct_n<std::string>(a, 3, std::string{text});

	int bad = 0;
	for(int i = 0; i < 3; i++) {
		printf("[%d] std::vector: %2zu chars   frg::vector::resize: %2zu chars   frg::construct_n: %2zu chars\n",
				i, ref[i].size(), fv[i].size(), p[i].size());
		if(p[i] != ref[i])
			bad++;
	}
	frg::destruct_n(a, p, 3);
	if(bad) {
		printf("FAIL: %d of 3 elements were constructed from a moved-from argument\n", bad);
		return 1;
	}
	printf("ok\n");
	return 0;
}
