#include <new>
#include <string.h>
#include <string>
#include <stdio.h>
#include <stdlib.h>
#include <frg/formatting.hpp>
#include <frg/logging.hpp>
extern "C" void frg_panic(const char *m) { fprintf(stderr, "PANIC: %s\n", m); abort(); }
extern "C" void frg_log(const char *m) { fprintf(stderr, "LOG: %s\n", m); }

// D4: the argument POSITION of a {}-spec is accumulated in a size_t without overflow check.
// A position >= 2^64 wraps around and selects an existing argument instead of being echoed
// unchanged like every other out-of-range position ("{1}" with one argument -> "{1}").
static int fails = 0;
template<typename... A>
static void check(const char *f, const char *expected, A... a) {
	std::string s;
	frg::output_to(s) << frg::fmt(f, a...);
	bool ok = s == expected;
	if(!ok) fails++;
	printf("%-4s fmt(\"%s\") = [%s] expected [%s]\n", ok ? "ok" : "DIFF", f, s.c_str(), expected);
}
int main() {
	// in-range / small out-of-range positions behave as documented:
	check("{0}", "42", 42);
	check("{1}", "{1}", 42);
	check("{4294967296}", "{4294967296}", 42);
	check("{18446744073709551615}", "{18446744073709551615}", 42);   // 2^64-1: still echoed
	// 2^64 + k wraps to k:
	check("{18446744073709551616}", "{18446744073709551616}", 42);       // prints arg 0
	check("{18446744073709551617}", "{18446744073709551617}", 42, 43);   // prints arg 1
	check("{18446744073709551616:04x}", "{18446744073709551616:04x}", 255);
	check("{100000000000000000000}", "{100000000000000000000}", 1, 2, 3, 4, 5, 6, 7, 8); // 10^20 mod 2^64 is still huge: echoed only by luck
	check("{36893488147419103232} {}", "{36893488147419103232} 2", 1, 2); // 2^65 -> arg 0
	printf("mismatches: %d\n", fails);
	return fails != 0;
}
