// C15: "... agree with a reference string for every content, including empty
// strings ... construction from ... views, copy, ... + and += with views".
//
// The empty string_view the library itself hands out (basic_string_view{} has
// data()==nullptr, size()==0; cmdline.hpp passes exactly that via opt.apply({}))
// is fed to memcpy() as the source pointer: memcpy(dst, nullptr, 0) is undefined
// behaviour (both pointers must be valid even for n==0; glibc and GCC's builtin
// declare the parameters nonnull and the optimiser uses that).
//
// Part A shows the practical consequence with plain g++ -O2 (no sanitizer):
// after the string operation the compiler "knows" the view's pointer is
// non-null and deletes the caller's null test.
// Part B lists the other call sites; build with
//   -fsanitize=undefined to get one report per site (see note.txt).
#include <new>
#include <string.h>
#include <stdio.h>
#include <stdlib.h>
#include <frg/string.hpp>
#include <frg/std_compat.hpp>

extern "C" void frg_panic(const char *m) { fprintf(stderr, "PANIC %s\n", m); abort(); }
extern "C" void frg_log(const char *m) { fprintf(stderr, "%s\n", m); }

using fstring = frg::string<frg::stl_allocator>;

// Part C: an allocator that, like the library's own guard "if(_buffer) free(_buffer)"
// promises, never expects a null pointer in free() (think of an allocator that
// reads a header in front of the block).
static int null_frees = 0;
struct header_allocator {
	void *allocate(size_t n) { return malloc(n); }
	__attribute__((noinline)) void free(void *p) {
		if(!p) { null_frees++; return; }   // a real one would read ((header *)p)[-1] here
		::free(p);
	}
};

// A cmdline-style consumer: keeps a copy of the option value and reports whether
// the option had a value at all (parse_arguments() passes {} == {nullptr,0} for
// an option without '=').
__attribute__((noinline)) bool has_no_value_ctor(frg::string_view v, fstring &keep) {
	fstring copy(v);                 // string.hpp:175  memcpy(_buffer, v.data(), 0)
	keep = copy;
	return v.data() == nullptr;      // must be true for v == {}
}

__attribute__((noinline)) bool has_no_value_append(frg::string_view v, fstring &log) {
	log += v;                        // string.hpp:261  memcpy(new_buffer + n, v.data(), 0)
	return v.data() == nullptr;      // must be true for v == {}
}

int main() {
	int bad = 0;
	frg::string_view empty;          // the library's canonical empty view: {nullptr, 0}

	// ---- Part A
	fstring keep("old"), log("log:");
	bool a = has_no_value_ctor(empty, keep);
	bool b = has_no_value_append(empty, log);
	printf("empty.data() is %p\n", (const void *)empty.data());
	printf("after basic_string(view):  (view.data()==nullptr) evaluates to %s\n", a ? "true" : "false");
	printf("after string += view:      (view.data()==nullptr) evaluates to %s\n", b ? "true" : "false");
	if(!a) { printf("FAIL: null test after basic_string(string_view{}) was optimised away\n"); bad = 1; }
	if(!b) { printf("FAIL: null test after operator+=(string_view{}) was optimised away\n"); bad = 1; }

	// ---- Part B: the remaining memcpy(…, nullptr, 0) sites
	fstring c("abc");
	fstring d = c + empty;           // string.hpp:229
	fstring e;                       // the library's own test idiom: string s; output_to(s) << 10;
	e.push_back('1');                // string.hpp:275  memcpy(new_buffer, nullptr, 0)
	fstring f;
	fstring g(f);                    // string.hpp:194  memcpy(_buffer, nullptr, 0)
	fstring h;
	h.resize(2);                     // string.hpp:214
	// ---- Part C: the library's own "if(_buffer)" guard is deleted as well
	frg::string<header_allocator> out;   // string s; frg::output_to(s) << 10;  (tests.cpp idiom)
	out.push_back('1');                  // string.hpp:275 memcpy(new, nullptr, 0); :279 if(_buffer) free(_buffer)
	frg::string<header_allocator> out2;
	out2 += frg::string_view("10");      // string.hpp:260 / :264
	printf("allocator.free(nullptr) was called %d time(s) although every call is guarded by if(_buffer)\n", null_frees);
	if(null_frees) { printf("FAIL: the if(_buffer) guard in operator+= was optimised away\n"); bad = 1; }

	printf("results: '%s' '%s' '%s' '%s'\n", keep.data(), log.data(), d.data(), e.data());
	return bad;
}
