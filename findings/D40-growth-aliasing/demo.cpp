// C13 / d1: pushing (or emplacing / resizing with) a reference to an element of the
// container itself at a growth threshold reads the element AFTER it was moved-from,
// destroyed and its storage released.  std::vector guarantees v.push_back(v[0]) works.
#include <new>
#include <string.h>
#include <stdio.h>
#include <stdlib.h>
#include <vector>
#include <frg/std_compat.hpp>
#include <frg/vector.hpp>
#include <frg/small_vector.hpp>
#include <frg/stack.hpp>

extern "C" void frg_panic(const char *s) { fprintf(stderr, "frg_panic: %s\n", s); abort(); }
extern "C" void frg_log(const char *s) { fprintf(stderr, "frg_log: %s\n", s); }

// Element type with observable move and destruction.
struct Obs {
	int v;
	Obs(int x = 0) : v(x) {}
	Obs(const Obs &o) : v(o.v) {}
	Obs(Obs &&o) : v(o.v) { o.v = -1; }        // moved-from is visible
	Obs &operator=(const Obs &o) { v = o.v; return *this; }
	~Obs() { v = -2; }                           // destroyed is visible
	bool operator==(const Obs &o) const { return v == o.v; }
	bool operator!=(const Obs &o) const { return v != o.v; }
};

static int failures = 0;

template<typename C>
static void check(const char *what, C &c, const std::vector<int> &ref) {
	bool ok = c.size() == ref.size();
	for(size_t i = 0; ok && i < ref.size(); i++)
		ok = (c[i].v == ref[i]);
	if(!ok) {
		failures++;
		fprintf(stderr, "MISMATCH %s: got [", what);
		for(size_t i = 0; i < c.size(); i++) fprintf(stderr, " %d", c[i].v);
		fprintf(stderr, " ] expected [");
		for(int x : ref) fprintf(stderr, " %d", x);
		fprintf(stderr, " ]\n");
	}
}

int main() {
	// (a) small_vector crossing the inline->heap boundary (N = 4): no freed memory involved,
	//     the argument refers to the inline slot that was moved-from and destroyed.
	{
		frg::small_vector<Obs, 4, frg::stl_allocator> sv;
		std::vector<int> ref;
		for(int i = 0; i < 4; i++) { sv.push_back(Obs(10 + i)); ref.push_back(10 + i); }
		sv.push_back(sv[0]);        // size == N == capacity -> relocation
		ref.push_back(ref[0]);
		check("small_vector<Obs,4>::push_back(sv[0]) at size 4", sv, ref);
	}
	// (b) same with emplace_back and resize(n, sv[0])
	{
		frg::small_vector<Obs, 4, frg::stl_allocator> sv;
		std::vector<int> ref;
		for(int i = 0; i < 4; i++) { sv.push_back(Obs(10 + i)); ref.push_back(10 + i); }
		sv.resize(6, sv[1]);
		ref.resize(6, ref[1]);
		check("small_vector<Obs,4>::resize(6, sv[1]) at size 4", sv, ref);
	}
	fprintf(stderr, "logic failures so far: %d\n", failures);

	// (c) frg::stack "dup": s.push(s.top()) at the first doubling (size 2 -> capacity 2).
	//     The argument now refers to storage already handed back to the allocator:
	//     AddressSanitizer reports heap-use-after-free inside vector::push.
	{
		frg::stack<int, frg::stl_allocator> s;
		s.push(1);
		s.push(2);                  // capacity is 2 now
		s.push(s.top());            // growth: old array freed, then read through 'value'
		fprintf(stderr, "stack top after dup: %d (expected 2)\n", s.top());
		if(s.top() != 2) failures++;
	}
	// (d) frg::vector
	{
		frg::vector<Obs, frg::stl_allocator> v;
		std::vector<int> ref;
		v.push(Obs(1)); v.push(Obs(2)); ref = {1, 2};
		v.push(v[0]); ref.push_back(ref[0]);
		check("vector<Obs>::push(v[0]) at size 2", v, ref);
	}
	return failures ? 1 : 0;
}
