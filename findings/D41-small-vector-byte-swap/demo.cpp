// C13 / d2: small_vector move construction and swap() relocate INLINE elements by swapping the
// raw bytes of the inline buffer; T's move constructor / destructor are never run.
// For any element type whose value depends on its own address (observable move) the
// container no longer equals its abstract sequence, and element destructors later touch
// storage the container does not own.
#include <new>
#include <string.h>
#include <stdio.h>
#include <stdlib.h>
#include <unistd.h>
#include <string>
#include <vector>
#include <set>
#include <frg/std_compat.hpp>
#include <frg/small_vector.hpp>

extern "C" void frg_panic(const char *s) { fprintf(stderr, "frg_panic: %s\n", s); abort(); }
extern "C" void frg_log(const char *s) { fprintf(stderr, "frg_log: %s\n", s); }

// Element with observable construction / move / destruction: every live object is registered
// by address, exactly like an object that hands out `this` (intrusive hook, self pointer,
// std::string with SSO, std::list sentinel, ...).
static std::set<const void *> live;
static int bad = 0;
struct Tracked {
	int v;
	Tracked *self;
	Tracked(int x) : v(x), self(this) { live.insert(this); }
	Tracked(const Tracked &o) : v(o.v), self(this) { live.insert(this); }
	Tracked(Tracked &&o) : v(o.v), self(this) { live.insert(this); o.v = -1; }
	~Tracked() {
		if(!live.erase(this)) {
			bad++;
			fprintf(stderr, "  ~Tracked(%d) at %p: no object was ever constructed here\n", v, (void *)this);
		}
	}
	bool ok() const { return self == this && live.count(this); }
};

int main() {
	int failures = 0;
	{
		frg::small_vector<Tracked, 4, frg::stl_allocator> a;
		a.emplace_back(1);
		a.emplace_back(2);
		frg::small_vector<Tracked, 4, frg::stl_allocator> b(std::move(a));   // inline -> inline
		fprintf(stderr, "after move: a.size()=%zu b.size()=%zu\n", a.size(), b.size());
		for(size_t i = 0; i < b.size(); i++)
			if(!b[i].ok()) {
				failures++;
				fprintf(stderr, "b[%zu] (v=%d) at %p is not a constructed object (self=%p)\n",
						i, b[i].v, (void *)&b[i], (void *)b[i].self);
			}
	}
	fprintf(stderr, "destructors run on never-constructed addresses: %d, leaked registrations: %zu\n",
			bad, live.size());
	failures += bad + (int)live.size();
	live.clear();

	// Same thing with a perfectly ordinary element type: std::string (SSO keeps a pointer
	// into itself).  Compare against the reference sequence.
	{
		frg::small_vector<std::string, 4, frg::stl_allocator> a, c;
		std::vector<std::string> ra, rc;
		a.push_back("hello"); ra.push_back("hello");
		c.push_back("world!"); rc.push_back("world!");
		swap(a, c); std::swap(ra, rc);
		// overwrite what is now in c (it used to live in a's buffer)
		c[0] = "XXXXX"; rc[0] = "XXXXX";
		fprintf(stderr, "a[0]=\"%s\" expected \"%s\";  c[0]=\"%s\" expected \"%s\"\n",
				a[0].c_str(), ra[0].c_str(), c[0].c_str(), rc[0].c_str());
		if(a[0] != ra[0] || c[0] != rc[0]) {
			failures++;
			fprintf(stderr, "MISMATCH with reference after swap of two inline small_vector<std::string>\n");
		}
		fflush(stderr);
		if(failures) _exit(1);   // leave before ~string frees pointers into the other object's buffer
	}
	return failures ? 1 : 0;
}
