#!/bin/sh
# Replays the demonstration against ${FRG_REPO:-/repo}; point FRG_REPO at a worktree of the commit before the fix to
# see the failure, at the current tree to see it gone.
cd "$(dirname "$0")"
out=$(mktemp -d); trap 'rm -rf "$out"' EXIT
g++ -std=c++20 -g -O2 -fsanitize=undefined -fno-sanitize-recover=all -w -I"${FRG_REPO:-/repo}/include" demo.cpp -o $out/demo -lpthread && $out/demo
