// C20 / printf: "%*c" (and "%-*c") with the width argument INT_MIN evaluates
// opts.minimum_width - 1 in int: signed overflow (undefined behaviour). In practice the
// value wraps to INT_MAX and the library pads one character with 2^31-1 blanks.
#include <new>
#include <string.h>
#include <stdarg.h>
#include <stdio.h>
#include <stdlib.h>
#include <limits.h>
#include <frg/printf.hpp>

extern "C" void frg_panic(const char *m) { fprintf(stderr, "frg_panic: %s\n", m); abort(); }
extern "C" void frg_log(const char *) {}

// A sink that only counts (the output would be 2 GiB).
struct counting_sink {
	unsigned long n = 0;
	void append(char) { n++; }
	void append(const char *s) { n += strlen(s); }
	void append(const char *, size_t k) { n += k; }
};

struct agent {
	frg::expected<frg::format_error> operator() (char c) { sink_->append(c); return frg::success; }
	frg::expected<frg::format_error> operator() (const char *c, size_t n) { sink_->append(c, n); return frg::success; }
	frg::expected<frg::format_error> operator() (char t, frg::format_options opts, frg::printf_size_mod szmod) {
		switch(t) {
		case 'c': case 'p': case 's':
			frg::do_printf_chars(*sink_, t, opts, szmod, vsp_); break;
		case 'd': case 'i': case 'o': case 'x': case 'X': case 'b': case 'B': case 'u':
			frg::do_printf_ints(*sink_, t, opts, szmod, vsp_); break;
		case 'f': case 'F': case 'e': case 'E': case 'g': case 'G':
			frg::do_printf_floats(*sink_, t, opts, szmod, vsp_); break;
		default:
			frg_panic("unknown conversion");
		}
		return frg::success;
	}
	counting_sink *sink_;
	frg::va_struct *vsp_;
};

static unsigned long count(const char *format, ...) {
	va_list args;
	va_start(args, format);
	frg::va_struct vs;
	frg::arg arg_list[NL_ARGMAX + 1];
	vs.arg_list = arg_list;
	va_copy(vs.args, args);
	counting_sink sink;
	auto res = frg::printf_format(agent{&sink, &vs}, format, &vs);
	if(!res) abort();
	va_end(args);
	return sink.n;
}

int main() {
	int fails = 0;
	// Every other conversion copes with a negative width (it is simply not padded):
	printf("%%*d INT_MIN -> %lu chars\n", count("%*d", INT_MIN, 5));
	printf("%%*s INT_MIN -> %lu chars\n", count("%*s", INT_MIN, "ab"));
	printf("%%*f INT_MIN -> %lu chars\n", count("%*f", INT_MIN, 1.5));
	printf("%%*c -1      -> %lu chars\n", count("%*c", -1, 'a'));
	fflush(stdout);
	// ... but 'c' computes minimum_width - 1:
	unsigned long n = count("%*c", INT_MIN, 'a');
	printf("%%*c INT_MIN -> %lu chars\n", n);
	// (the decisive failure is the signed overflow of `minimum_width - 1`, which UBSan turns into an abort; how many
	// padding characters a width whose magnitude does not fit into int asks for is not the point)
	n = count("%-*c", INT_MIN, 'a');
	printf("%%-*c INT_MIN -> %lu chars\n", n);
	// (the decisive failure is the signed overflow of `minimum_width - 1`, which UBSan turns into an abort; how many
	// padding characters a width whose magnitude does not fit into int asks for is not the point)
	return fails ? 1 : 0;
}
