// C17 / d2: copy-constructing a frg::optional<bool> from a non-const lvalue optional<bool>
// does not copy the state: it produces an ENGAGED optional whose value is the source's
// engagement flag.  Reference: std::optional<bool>.
#include <new>
#include <string.h>
#include <optional>
#include <cstdio>
#include <frg/optional.hpp>

extern "C" void frg_panic(const char *s) { std::fprintf(stderr, "frg_panic: %s\n", s); __builtin_trap(); }
extern "C" void frg_log(const char *s) { std::fprintf(stderr, "frg_log: %s\n", s); }

static int failures = 0;

static const char *show(bool engaged, bool v) {
	return !engaged ? "empty" : (v ? "engaged(true)" : "engaged(false)");
}

template<typename FO, typename SO>
void compare(const char *what, const FO &f, const SO &s) {
	bool fe = f.has_value(), se = s.has_value();
	bool fv = fe ? bool(*f) : false, sv = se ? bool(*s) : false;
	bool same = fe == se && fv == sv;
	std::printf("%-44s frg: %-15s std: %-15s %s\n", what, show(fe, fv), show(se, sv), same ? "ok" : "MISMATCH");
	if(!same) failures++;
}

static frg::optional<bool> pass_by_value(frg::optional<bool> o) { return o; }

int main() {
	{	// source empty
		frg::optional<bool> fa;            std::optional<bool> sa;
		frg::optional<bool> fb(fa);        std::optional<bool> sb(sa);
		compare("copy-construct from empty lvalue", fb, sb);
		frg::optional<bool> fc = fa;       std::optional<bool> sc = sa;
		compare("copy-init (= a) from empty lvalue", fc, sc);
		compare("pass empty lvalue by value", pass_by_value(fa), sa);
	}
	{	// source holds false
		frg::optional<bool> fa(false);     std::optional<bool> sa(false);
		frg::optional<bool> fb(fa);        std::optional<bool> sb(sa);
		compare("copy-construct from engaged(false) lvalue", fb, sb);
	}
	{	// controls that work: const source, rvalue source, assignment
		const frg::optional<bool> fa;      const std::optional<bool> sa;
		frg::optional<bool> fb(fa);        std::optional<bool> sb(sa);
		compare("copy-construct from const empty (control)", fb, sb);
		frg::optional<bool> fx;            std::optional<bool> sx;
		frg::optional<bool> fy(true);      std::optional<bool> sy(true);
		fy = fx;                           sy = sx;
		compare("copy-assign empty to engaged (control)", fy, sy);
	}
	if(failures) {
		std::printf("FAIL: %d state mismatches against std::optional\n", failures);
		return 1;
	}
	std::printf("OK\n");
	return 0;
}
