// C20 / printf: print_digits() computes the field length in int. With thousands grouping
// (the "'" flag and a locale with a separator) max(k, precision) + extra exceeds INT_MAX
// for a large precision given in the format string; `width - final_width` is then a signed
// overflow (UB). The sibling computation in print_float() was moved to int64_t by the
// earlier fix "print_float computed its field length in int"; print_digits() was not.
#include <new>
#include <string.h>
#include <stdio.h>
#include <stdlib.h>
#include <stdarg.h>
#include <unistd.h>
#include <frg/printf.hpp>

extern "C" void frg_panic(const char *m) { fprintf(stderr, "frg_panic: %s\n", m); _exit(3); }
extern "C" void frg_log(const char *) {}

// Counting sink: nothing is stored, so the huge field costs no memory.
struct Sink {
	unsigned long long n = 0;
	void append(char) { n++; }
	void append(const char *p) { while(*p++) n++; }
};

struct Agent {
	Sink *sink_; frg::va_struct *vsp_;
	frg::expected<frg::format_error> operator()(char c) { sink_->append(c); return frg::success; }
	frg::expected<frg::format_error> operator()(const char *, size_t n) { sink_->n += n; return frg::success; }
	frg::expected<frg::format_error> operator()(char t, frg::format_options opts, frg::printf_size_mod szmod) {
		// an ordinary en_US-style numeric locale: "." "," groups of 3
		frg::locale_options loc{".", ",", "\3"};
		switch(t) {
		case 'd': case 'i': case 'o': case 'x': case 'X': case 'b': case 'B': case 'u':
			frg::do_printf_ints(*sink_, t, opts, szmod, vsp_, loc); break;
		default:
			frg_panic("unknown conversion");
		}
		return frg::success;
	}
};

__attribute__((noinline)) unsigned long long my_printf(const char *format, ...) {
	va_list args;
	va_start(args, format);
	frg::va_struct vs;
	frg::arg arg_list[10];
	vs.arg_list = arg_list;
	va_copy(vs.args, args);
	Sink sink;
	auto res = frg::printf_format(Agent{&sink, &vs}, format, &vs);
	(void)res;
	va_end(vs.args);
	va_end(args);
	return sink.n;
}

int main() {
	alarm(600);
	// Both numbers pass the parser's own range check (w <= (INT_MAX - 9) / 10 before each digit).
	// precision 2147483639 digits + 715827879 separators = 2863311518 > INT_MAX.
	unsigned long long n = my_printf("%'2147483639.2147483639d", 1);
	printf("printed %llu characters (expected 2863311518)\n", n);
	return n == 2863311518ull ? 0 : 1;
}
