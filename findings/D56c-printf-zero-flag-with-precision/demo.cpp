#include <new>
#include <string.h>
#include <stdio.h>
#include <stdlib.h>
#include <stdarg.h>
#include <limits.h>
#include <string>
#include <frg/printf.hpp>
#include <frg/formatting.hpp>
#include <frg/logging.hpp>

extern "C" void frg_panic(const char *m) { fprintf(stderr, "frg_panic: %s\n", m); abort(); }
extern "C" void frg_log(const char *m) { fprintf(stderr, "frg_log: %s\n", m); }

// The agent from frigg's own tests/tests.cpp (formatting.printf): dispatches to the do_printf_* helpers.
struct agent {
	frg::expected<frg::format_error> operator() (char c) { sink_->append(c); return frg::success; }
	frg::expected<frg::format_error> operator() (const char *c, size_t n) { sink_->append(c, n); return frg::success; }
	frg::expected<frg::format_error> operator() (char t, frg::format_options opts, frg::printf_size_mod szmod) {
		switch(t) {
		case 'c': case 'p': case 's':
			frg::do_printf_chars(*sink_, t, opts, szmod, vsp_); break;
		case 'd': case 'i': case 'o': case 'x': case 'X': case 'u':
			frg::do_printf_ints(*sink_, t, opts, szmod, vsp_); break;
		default: abort();
		}
		return frg::success;
	}
	frg::container_logger<std::string> *sink_;
	frg::va_struct *vsp_;
};

static std::string frg_sprintf(const char *format, ...) {
	va_list args; va_start(args, format);
	frg::va_struct vs; frg::arg arg_list[16];
	vs.arg_list = arg_list; va_copy(vs.args, args);
	std::string buf; frg::container_logger<std::string> sink{buf};
	auto res = frg::printf_format(agent{&sink, &vs}, format, &vs);
	if(!res) abort();
	va_end(vs.args); va_end(args);
	return buf;
}

static int failures = 0, checks = 0;
// Reference: the hosted C library's snprintf (ISO C semantics for these directives).
#define CHECK(fmt, ...) do { \
		char ref[256]; snprintf(ref, sizeof ref, fmt, __VA_ARGS__); \
		std::string got = frg_sprintf(fmt, __VA_ARGS__); checks++; \
		if(got != ref) { failures++; printf("MISMATCH %-12s args(%s): ISO C \"%s\"  frigg \"%s\"\n", fmt, #__VA_ARGS__, ref, got.c_str()); } \
	} while(0)

// C19 / d3: the '0' flag is not ignored when a precision is given.
// ISO C 7.21.6.1p6 ('0' flag): "For d, i, o, u, x, and X conversions, if a precision is specified,
// the 0 flag is ignored." frigg zero-fills the whole field width, so the value is rendered with
// MORE digits than the precision asks for (the width is padded with '0' instead of ' ').
// Only non-negative values and unsigned conversions are used, so no sign is involved.
int main() {
	CHECK("[%05.3d]", 7);
	CHECK("[%08.3i]", 42);
	CHECK("[%05.0d]", 7);
	CHECK("[%05.d]", 7);
	CHECK("[%010.4u]", 123u);
	CHECK("[%08.2x]", 0xabu);
	CHECK("[%08.2X]", 0xabu);
	CHECK("[%06.1o]", 8u);
	CHECK("[%025.12lld]", LLONG_MAX);
	CHECK("[%070.25llu]", ULLONG_MAX);
	CHECK("[%06.3hhu]", 255);
	CHECK("[%012.5zu]", (size_t)65536);
	CHECK("[%012.5jx]", (uintmax_t)65536);
	CHECK("[%0*.*d]", 6, 2, 5);      // width/precision through '*'
	CHECK("[%1$06.2d]", 5);          // positional
	// controls that frigg renders correctly:
	CHECK("[%05d]", 7);              // no precision: '0' is honoured
	CHECK("[%0*.*d]", 6, -1, 5);     // negative '*' precision counts as omitted: '0' is honoured
	CHECK("[%5.3d]", 7);             // no '0' flag

	printf("%d of %d directives differ from ISO C\n", failures, checks);
	return failures ? 1 : 0;
}
