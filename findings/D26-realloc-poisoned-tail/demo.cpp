#include <new>
#include <string.h>
#include <stdlib.h>
#include <stdio.h>
#include <stdint.h>
#include <sys/mman.h>
#include <sanitizer/asan_interface.h>
extern "C" void frg_panic(const char *s) { fprintf(stderr, "PANIC %s\n", s); abort(); }
extern "C" void frg_log(const char *s) { fprintf(stderr, "%s\n", s); }
#include <frg/slab.hpp>
struct Mutex { void lock() {} void unlock() {} };
struct Pol {
	static constexpr size_t sb_size = 1 << 18, slabsize = 1 << 18, pagesize = 0x1000, num_buckets = 13;
	uintptr_t map(size_t n) {
		void *p = mmap(nullptr, n, PROT_READ | PROT_WRITE, MAP_PRIVATE | MAP_ANONYMOUS, -1, 0);
		if(p == MAP_FAILED) return 0;
		__asan_poison_memory_region(p, n);       // fresh memory is poisoned, the pool unpoisons what it uses
		return (uintptr_t)p;
	}
	void unmap(uintptr_t a, size_t n) { __asan_unpoison_memory_region((void *)a, n); munmap((void *)a, n); }
	void poison(void *p, size_t n) { __asan_poison_memory_region(p, n); }
	void unpoison(void *p, size_t n) { __asan_unpoison_memory_region(p, n); }
	void unpoison_expand(void *p, size_t n) { __asan_unpoison_memory_region(p, n); }
};
int main() {
	Pol pol; frg::slab_pool<Pol, Mutex> pool(pol);
	char *p = (char *)pool.allocate(10);          // 16-byte class, bytes [10,16) stay poisoned
	memset(p, 'x', 10);
	char *q = (char *)pool.realloc(p, 100);       // crosses the class: copying fallback
	printf("%s\n", memcmp(q, "xxxxxxxxxx", 10) == 0 ? "OK" : "BAD");
	pool.free(q);
	return 0;
}
