// C19: fmt() must render every {}-spec of its grammar ([pos][:[0][width][bcdioxX]]) for integer
// arguments. The 'c' conversion is accepted by the parser, but for every integer type other than
// plain `char` the dispatcher runs into an assertion instead of emitting the character.
#include <stdio.h>
#include <stdlib.h>
#include <string.h>
#include <string>
#include <frg/formatting.hpp>
#include <frg/logging.hpp>

extern "C" void frg_panic(const char *msg) {
	printf("LIBRARY PANIC: %s\n", msg);
	fflush(stdout);
	exit(2);
}
extern "C" void frg_log(const char *) { }

int main() {
	std::string out;

	// Works: plain char.
	frg::output_to(out) << frg::fmt("[{:c}]", 'A');
	printf("char  65 with {:c} -> '%s'\n", out.c_str());

	// The same spec with the other conversions works for an int ...
	out.clear();
	frg::output_to(out) << frg::fmt("[{0:d} {0:x} {0:o} {0:b}]", 65);
	printf("int   65 with d/x/o/b -> '%s'\n", out.c_str());
	fflush(stdout);

	// ... but 'c' on an int (what printf's %c takes, what std::format's {:c} accepts) aborts.
	out.clear();
	frg::output_to(out) << frg::fmt("[{:c}]", 65);
	printf("int   65 with {:c} -> '%s'\n", out.c_str());
	if (out != "[A]") {
		printf("FAIL: expected '[A]'\n");
		return 1;
	}
	printf("OK\n");
	return 0;
}
