// C15: "Strings and string views denote exactly their character sequence ...
// including ... embedded NULs".  Formatting an owned frg::string through the
// library's own formatter (frg::format / operator<< of the loggers, "{}" in
// frg::fmt) silently drops everything from the first embedded NUL on, while the
// *same* characters formatted as a frg::string_view come out complete.
#include <new>
#include <string.h>
#include <stdio.h>
#include <stdlib.h>
#include <string>
#include <frg/string.hpp>
#include <frg/std_compat.hpp>
#include <frg/formatting.hpp>
#include <frg/logging.hpp>

extern "C" void frg_panic(const char *m) { fprintf(stderr, "PANIC %s\n", m); abort(); }
extern "C" void frg_log(const char *m) { fprintf(stderr, "%s\n", m); }

using fstring = frg::string<frg::stl_allocator>;

static void dump(const char *what, const std::string &s) {
	printf("%-28s size=%zu  [", what, s.size());
	for(unsigned char c : s)
		if(c) printf("%c", c); else printf("\\0");
	printf("]\n");
}

int main() {
	const char raw[] = {'a', 'b', '\0', 'c', 'd'};
	std::string reference(raw, sizeof raw);          // reference: 5 characters

	fstring owned(raw, sizeof raw);                   // (pointer,length) construction
	frg::string_view view = owned;                    // same characters as a view

	int bad = 0;
	if(owned.size() != 5 || memcmp(owned.data(), raw, 5)) { printf("string itself wrong?!\n"); return 2; }

	std::string out_view, out_owned, out_fmt;
	frg::output_to(out_view) << view;                 // formatting.hpp:398  (loops over size())
	frg::output_to(out_owned) << owned;               // formatting.hpp:404  (sink.append(object.data()))
	frg::output_to(out_fmt) << frg::fmt("<{}>", owned);

	dump("reference", reference);
	dump("formatted string_view", out_view);
	dump("formatted frg::string", out_owned);
	dump("fmt(\"<{}>\", frg::string)", out_fmt);

	if(out_view != reference) { printf("FAIL: view formatting differs from reference\n"); bad = 1; }
	if(out_owned != reference) { printf("FAIL: frg::string formatting lost %zu of %zu characters\n",
			reference.size() - out_owned.size(), reference.size()); bad = 1; }
	if(out_fmt != "<" + reference + ">") { printf("FAIL: fmt() of frg::string differs from reference\n"); bad = 1; }

	// Round trip through the library's own string sink: s2 should equal owned.
	fstring s2("");
	frg::output_to(s2) << owned;
	if(!(s2 == owned)) { printf("FAIL: output_to(frg::string) << owned yields size %zu, expected %zu\n",
			s2.size(), owned.size()); bad = 1; }
	return bad;
}
