// frg::tuple's converting move constructor (tuple<Types...>(tuple<UTypes...> &&)) std::move()s every
// element of the source, also elements that are LVALUE REFERENCES. Building a tuple of values from an
// rvalue tuple of references (what tie()/forward-as-tuple style code and tuple_cat results produce)
// therefore moves out of the objects the references point to. std::tuple forwards each element as
// std::forward<U>(get<i>(src)): a U& element stays an lvalue and is copied.
#include <new>
#include <string.h>
#include <cstdio>
#include <cstdlib>
#include <string>
#include <memory>
#include <tuple>
#include <frg/tuple.hpp>

extern "C" void frg_panic(const char *s) { printf("frg_panic: %s\n", s); abort(); }
extern "C" void frg_log(const char *s) { puts(s); }

static int failures = 0;
#define CHECK(cond, ...) do { if(!(cond)) { failures++; printf("FAIL %s:%d: ", __FILE__, __LINE__); printf(__VA_ARGS__); puts(""); } } while(0)

int main() {
	const std::string text = "a string that is long enough not to be stored inline";

	// reference implementation
	{
		std::string name = text;
		auto counter = std::make_shared<int>(42);
		std::tuple<std::string &, std::shared_ptr<int> &> refs(name, counter);
		std::tuple<std::string, std::shared_ptr<int>> vals(std::move(refs));
		printf("std : name='%.12s...' (%zu chars), counter=%s, copy='%.12s...'\n", name.c_str(), name.size(),
				counter ? "alive" : "NULL", std::get<0>(vals).c_str());
		CHECK(name == text && counter && *counter == 42, "std::tuple modified the referenced objects");
	}

	// frg
	{
		std::string name = text;
		auto counter = std::make_shared<int>(42);
		frg::tuple<std::string &, std::shared_ptr<int> &> refs(name, counter);
		CHECK(&refs.get<0>() == &name && &refs.get<1>() == &counter, "reference identity lost");

		// snapshot the referenced objects into a tuple of values
		frg::tuple<std::string, std::shared_ptr<int>> vals(std::move(refs));

		printf("frg : name='%.12s...' (%zu chars), counter=%s, copy='%.12s...'\n", name.c_str(), name.size(),
				counter ? "alive" : "NULL", vals.get<0>().c_str());
		CHECK(vals.get<0>() == text, "the new tuple does not hold the value");
		CHECK(name == text, "the object referenced by the tuple<string &> element was moved from: size %zu, want %zu",
				name.size(), text.size());
		CHECK(counter != nullptr, "the shared_ptr referenced by the tuple<shared_ptr &> element was emptied");
		CHECK(&refs.get<0>() == &name, "reference identity lost");
	}

	// the same through tuple_cat: its result type for reference elements is a tuple of references,
	// and converting that temporary to a tuple of values goes through the same constructor.
	{
		std::string a = text, b = text;
		frg::tuple<std::string &> ra(a);
		frg::tuple<std::string &> rb(b);
		frg::tuple<std::string, std::string> vals = frg::tuple_cat(ra, rb);
		CHECK(a == text && b == text, "tuple_cat(ra, rb) -> tuple<string, string>: a has %zu chars, b has %zu chars, want %zu",
				a.size(), b.size(), text.size());
	}

	printf("%d failure(s)\n", failures);
	return failures ? 1 : 0;
}
