// C20 / printf: the %e %E %g %G directives do not consume their variadic argument,
// so every later directive fetches an argument that belongs to another directive
// (wrong value, or wrong type -> va_arg type mismatch -> wild pointer dereference).
#include <new>
#include <string.h>
#include <stdio.h>
#include <stdlib.h>
#include <stdarg.h>
#include <unistd.h>
#include <string>
#include <frg/printf.hpp>

extern "C" void frg_panic(const char *m) { fprintf(stderr, "frg_panic: %s\n", m); _exit(3); }
extern "C" void frg_log(const char *) {}

struct Sink {
	std::string s;
	void append(char c) { s.push_back(c); }
	void append(const char *p) { s += p; }
};

// The usual agent (same shape as the one in tests/tests.cpp and in mlibc): it forwards every
// conversion character to the do_printf_* helper that has a case label for it.
struct Agent {
	Sink *sink_; frg::va_struct *vsp_;
	frg::expected<frg::format_error> operator()(char c) { sink_->append(c); return frg::success; }
	frg::expected<frg::format_error> operator()(const char *c, size_t n) {
		for(size_t i = 0; i < n; i++) sink_->append(c[i]);
		return frg::success;
	}
	frg::expected<frg::format_error> operator()(char t, frg::format_options opts, frg::printf_size_mod szmod) {
		switch(t) {
		case 'c': case 'p': case 's':
			frg::do_printf_chars(*sink_, t, opts, szmod, vsp_); break;
		case 'd': case 'i': case 'o': case 'x': case 'X': case 'b': case 'B': case 'u':
			frg::do_printf_ints(*sink_, t, opts, szmod, vsp_); break;
		case 'f': case 'F': case 'g': case 'G': case 'e': case 'E':
			frg::do_printf_floats(*sink_, t, opts, szmod, vsp_); break;
		default:
			frg_panic("unknown conversion");
		}
		return frg::success;
	}
};

__attribute__((noinline)) std::string my_sprintf(const char *format, ...) {
	va_list args;
	va_start(args, format);
	frg::va_struct vs;
	frg::arg arg_list[10];
	vs.arg_list = arg_list;
	va_copy(vs.args, args);
	Sink sink;
	auto res = frg::printf_format(Agent{&sink, &vs}, format, &vs);
	(void)res;
	va_end(vs.args);
	va_end(args);
	return sink.s;
}

int main() {
	alarm(20);
	int bad = 0;

	// (A) wrong value: the directive after %e prints the argument that belongs to %e.
	{
		std::string out = my_sprintf("%e|%f", 1.0, 2.0);
		char ref[64]; snprintf(ref, sizeof ref, "%e|%f", 1.0, 2.0);
		std::string tail = out.substr(out.find('|') + 1);
		printf("A: frg=[%s] libc=[%s]\n", out.c_str(), ref);
		if(tail != "2.000000") {
			printf("A: FAIL: \"%%f\" after \"%%e\" printed %s, its own argument is 2.0 -> %%e did not consume its argument\n", tail.c_str());
			bad = 1;
		}
	}
	{
		std::string out = my_sprintf("%g %G %E|%.1f", 1.0, 2.0, 3.0, 4.0);
		std::string tail = out.substr(out.find('|') + 1);
		printf("A2: frg=[%s]\n", out.c_str());
		if(tail != "4.0") { printf("A2: FAIL: last directive printed %s instead of 4.0\n", tail.c_str()); bad = 1; }
	}
	fflush(stdout);

	// (B) wrong type: a long double is always passed in memory; my_sprintf's hidden return slot,
	// `format` and the four ints use up the six integer registers, so "hello" follows the
	// long double in the stack argument area.
	// %Le leaves the long double there, %s then does va_arg(void *) on the long double's
	// mantissa (0xc000000000000000) and dereferences it.
	{
		std::string out = my_sprintf("%d %d %d %d %Le %s", 1, 2, 3, 4, 1.5L, "hello");
		printf("B: frg=[%s]\n", out.c_str());
		if(out.find("hello") == std::string::npos) { printf("B: FAIL: %%s did not print its argument\n"); bad = 1; }
	}
	return bad;
}
