// frg::unique_ptr: move assignment is a swap. When the source pointer lives inside the
// object the destination owns (the usual "pop the head of a singly linked list" idiom
//     head = std::move(head->next);
// ) the old head ends up owning itself: it is never destroyed and its block is never freed.
#include <new>
#include <string.h>
#include <stdio.h>
#include <stdlib.h>
#include <memory>
#include <frg/unique.hpp>

static int live_nodes = 0;     // element objects alive
static int live_blocks = 0;    // blocks handed out and not yet returned

struct counting_allocator {
	void *allocate(size_t n) { live_blocks++; return malloc(n); }
	void free(void *p) { if(p) { live_blocks--; ::free(p); } }
	void deallocate(void *p, size_t) { free(p); }
};

template<template<typename> class Ptr>
struct node {
	int value;
	Ptr<node> next;
	node(int v, Ptr<node> n) : value{v}, next{std::move(n)} { live_nodes++; }
	~node() { live_nodes--; }
};

template<typename T> using frg_ptr = frg::unique_ptr<T, counting_allocator>;
template<typename T> using std_ptr = std::unique_ptr<T>;

int main() {
	setvbuf(stdout, nullptr, _IONBF, 0);
	// Reference: the same sequence with std::unique_ptr.
	{
		using N = node<std_ptr>;
		std_ptr<N> head;
		for(int i = 0; i < 3; i++)
			head = std::make_unique<N>(i, std::move(head));
		head = std::move(head->next);   // pop front
		printf("std: after pop: %d nodes alive (expected 2)\n", live_nodes);
	}
	printf("std: after the list died: %d nodes alive\n", live_nodes);
	int std_left = live_nodes;
	live_nodes = 0;

	{
		using N = node<frg_ptr>;
		counting_allocator a;
		frg_ptr<N> head{a};
		for(int i = 0; i < 3; i++)
			head = frg::make_unique<N>(a, i, std::move(head));
		head = std::move(head->next);   // pop front
		printf("frg: after pop: %d nodes alive (expected 2), head->value = %d\n",
				live_nodes, head->value);
	}
	printf("frg: after the list died: %d nodes alive, %d blocks still allocated\n",
			live_nodes, live_blocks);

	if(std_left != 0) return 2;
	if(live_nodes != 0 || live_blocks != 0) {
		printf("FAIL: the popped node was never destroyed and its block never freed\n");
		return 1;
	}
	printf("ok\n");
	return 0;
}
