#include <new>
#include <string.h>
#include <stdio.h>
#include <stdlib.h>
#include <stdarg.h>
#include <limits.h>
#include <string>
#include <frg/printf.hpp>
#include <frg/formatting.hpp>
#include <frg/logging.hpp>

extern "C" void frg_panic(const char *m) { fprintf(stderr, "frg_panic: %s\n", m); abort(); }
extern "C" void frg_log(const char *m) { fprintf(stderr, "frg_log: %s\n", m); }

// The agent from frigg's own tests/tests.cpp (formatting.printf): dispatches to the do_printf_* helpers.
struct agent {
	frg::expected<frg::format_error> operator() (char c) { sink_->append(c); return frg::success; }
	frg::expected<frg::format_error> operator() (const char *c, size_t n) { sink_->append(c, n); return frg::success; }
	frg::expected<frg::format_error> operator() (char t, frg::format_options opts, frg::printf_size_mod szmod) {
		switch(t) {
		case 'c': case 'p': case 's':
			frg::do_printf_chars(*sink_, t, opts, szmod, vsp_); break;
		case 'd': case 'i': case 'o': case 'x': case 'X': case 'u':
			frg::do_printf_ints(*sink_, t, opts, szmod, vsp_); break;
		default: abort();
		}
		return frg::success;
	}
	frg::container_logger<std::string> *sink_;
	frg::va_struct *vsp_;
};

static std::string frg_sprintf(const char *format, ...) {
	va_list args; va_start(args, format);
	frg::va_struct vs; frg::arg arg_list[16];
	vs.arg_list = arg_list; va_copy(vs.args, args);
	std::string buf; frg::container_logger<std::string> sink{buf};
	auto res = frg::printf_format(agent{&sink, &vs}, format, &vs);
	if(!res) abort();
	va_end(vs.args); va_end(args);
	return buf;
}

static int failures = 0, checks = 0;
// Reference: the hosted C library's snprintf (ISO C semantics for these directives).
#define CHECK(fmt, ...) do { \
		char ref[256]; snprintf(ref, sizeof ref, fmt, __VA_ARGS__); \
		std::string got = frg_sprintf(fmt, __VA_ARGS__); checks++; \
		if(got != ref) { failures++; printf("MISMATCH %-12s args(%s): ISO C \"%s\"  frigg \"%s\"\n", fmt, #__VA_ARGS__, ref, got.c_str()); } \
	} while(0)

// C19 / d1: an explicit precision of 0 with the value 0 makes the WHOLE field vanish:
// ISO C 7.21.6.1p8: "The result of converting a zero value with a precision of zero is no characters"
// -- only the digits disappear; the field width padding, the sign of the '+'/' ' flags and the
// zero that '#' forces for %o are still required.
int main() {
	// no flags at all: width + precision + value
	CHECK("[%5.0d]", 0);
	CHECK("[%5.d]", 0);
	CHECK("[%12.0i]", 0);
	CHECK("[%3.0u]", 0u);
	CHECK("[%8.0x]", 0u);
	CHECK("[%8.0X]", 0u);
	CHECK("[%4.0o]", 0u);
	CHECK("[%70.0lld]", 0LL);
	CHECK("[%2.0hhd]", 256);              // (signed char)256 == 0
	CHECK("[%6.0zu]", (size_t)0);
	CHECK("[%6.0jd]", (intmax_t)0);
	CHECK("[%*.*d]", 5, 0, 0);            // width and precision as '*'
	CHECK("[%-5.0d]|", 0);                // left-justified
	CHECK("%3.0d|%3.0d|%3.0d", 1, 0, 2);  // a table column collapses
	CHECK("[%1$5.0d]", 0);                // positional
	// sign flags
	CHECK("[%+.0d]", 0);
	CHECK("[% .0d]", 0);
	CHECK("[%+5.0d]", 0);
	// '#': for %o the precision is increased to force a leading zero, so "0" must be printed
	CHECK("[%#.0o]", 0u);
	CHECK("[%#5.0o]", 0u);
	// controls that are rendered correctly (precision 0, value != 0; value 0, no width)
	CHECK("[%5.0d]", 7);
	CHECK("[%.0d]", 0);
	CHECK("[%5.1d]", 0);

	printf("%d of %d directives differ from ISO C\n", failures, checks);
	return failures ? 1 : 0;
}
