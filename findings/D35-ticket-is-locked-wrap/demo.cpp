// D1: ticket_spinlock::is_locked() compares the two free-running 32-bit ticket
// counters with '<' instead of '!='.  When next_ticket_ has wrapped around
// (after 2^32 acquisitions) but serving_ticket_ has not, a HELD lock (and a
// lock with queued waiters) reports is_locked() == false.
//
// The demo only uses the public interface: lock(), unlock(), is_locked().
#include <stdint.h>
#include <stdio.h>
#include <unistd.h>
#include <atomic>
#include <thread>
#include <frg/spinlock.hpp>
#include <frg/mutex.hpp>

extern "C" void frg_panic(const char *s) { fprintf(stderr, "frg_panic: %s\n", s); _exit(3); }
extern "C" void frg_log(const char *s) { fprintf(stderr, "frg_log: %s\n", s); }

int main() {
	alarm(600);
	frg::ticket_spinlock lock;
	int failures = 0;

	// Sanity: behaves as documented far away from the wrap.
	lock.lock();
	if(!lock.is_locked()) { printf("unexpected: early is_locked()==false\n"); return 2; }
	lock.unlock();
	if(lock.is_locked()) { printf("unexpected: early is_locked()==true\n"); return 2; }

	// 2^32 - 1 uncontended acquisitions in total -> both counters == 0xFFFFFFFF.
	for(uint64_t i = 1; i < 0xFFFFFFFFull; i++) {
		lock.lock();
		lock.unlock();
	}
	printf("performed 2^32-1 balanced lock/unlock pairs\n");

	// (a) single holder: ticket 0xFFFFFFFF, next_ticket_ wraps to 0.
	{
		frg::unique_lock<frg::ticket_spinlock> g(lock);
		bool guard_says = g.is_locked();
		bool mutex_says = lock.is_locked();
		printf("holder inside critical section: guard.is_locked()=%d  mutex.is_locked()=%d\n",
				guard_says, mutex_says);
		if(guard_says && !mutex_says) {
			printf("FAIL(a): the lock is held, but ticket_spinlock::is_locked() returns false\n");
			failures++;
		}

		// (b) a second thread queues up behind the holder; the lock is held AND
		// contended, still is_locked() says false.  Prove mutual exclusion is
		// intact (the waiter really waits), i.e. the lock IS locked.
		std::atomic<int> waiter_in{0};
		std::thread t([&] {
			lock.lock();
			waiter_in.store(1);
			lock.unlock();
		});
		usleep(200 * 1000);
		bool waiter_blocked = !waiter_in.load();
		bool mutex_says2 = lock.is_locked();
		printf("holder + queued waiter: waiter blocked=%d  mutex.is_locked()=%d\n",
				waiter_blocked, mutex_says2);
		if(waiter_blocked && !mutex_says2) {
			printf("FAIL(b): waiter is excluded (lock is held), but is_locked() returns false\n");
			failures++;
		}
		g.unlock();
		t.join();
	}
	if(lock.is_locked()) { printf("unexpected: is_locked()==true after everything released\n"); return 2; }

	if(failures) {
		printf("RESULT: %d failure(s)\n", failures);
		return 1;
	}
	printf("RESULT: ok\n");
	return 0;
}
