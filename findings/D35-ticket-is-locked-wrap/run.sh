#!/bin/sh
# Replays the demonstration against ${FRG_REPO:-/repo}; point FRG_REPO at a worktree of the commit before the fix to
# see the failure, at the current tree to see it gone.
cd "$(dirname "$0")"
out=$(mktemp -d); trap 'rm -rf "$out"' EXIT
# ~20-60 s: the demo performs 2^32 uncontended lock/unlock pairs to reach the counter wrap.
set -e
g++ -std=c++20 -O2 -pthread -I"${FRG_REPO:-/repo}/include" demo.cpp -o $out/demo
$out/demo
