// C20 / d1: the printf flag  '  (group thousands) makes print_digits read
// locale_opts.grouping[-1] -- one byte BEFORE the grouping string.
#include <new>
#include <string.h>
#include <stdio.h>
#include <stdlib.h>
#include <stdarg.h>
#include <limits.h>
#include <string>
#include <frg/printf.hpp>

extern "C" void frg_panic(const char *m) { fprintf(stderr, "frg_panic: %s\n", m); exit(3); }
extern "C" void frg_log(const char *m) { fprintf(stderr, "frg_log: %s\n", m); }

struct str_sink {
	std::string out;
	void append(char c) { out.push_back(c); }
	void append(const char *s) { out.append(s); }
};

struct agent {
	frg::expected<frg::format_error> operator() (char c) { sink->append(c); return frg::success; }
	frg::expected<frg::format_error> operator() (const char *c, size_t n) {
		sink->out.append(c, n); return frg::success;
	}
	frg::expected<frg::format_error> operator() (char t, frg::format_options opts,
			frg::printf_size_mod szmod) {
		switch(t) {
		case 'c': case 'p': case 's':
			frg::do_printf_chars(*sink, t, opts, szmod, vsp); break;
		case 'd': case 'i': case 'o': case 'x': case 'X': case 'b': case 'B': case 'u':
			if(loc) frg::do_printf_ints(*sink, t, opts, szmod, vsp, *loc);
			else frg::do_printf_ints(*sink, t, opts, szmod, vsp);
			break;
		case 'f': case 'F':
			frg::do_printf_floats(*sink, t, opts, szmod, vsp); break;
		default:
			return frg::format_error::agent_error;
		}
		return frg::success;
	}
	str_sink *sink;
	frg::va_struct *vsp;
	frg::locale_options *loc;
};

static std::string run(frg::locale_options *loc, const char *format, ...) {
	va_list args;
	va_start(args, format);
	frg::va_struct vs;
	frg::arg arg_list[NL_ARGMAX + 1] = {};
	vs.arg_list = arg_list;
	va_copy(vs.args, args);

	// the format string lives in an exact-size heap buffer
	size_t n = strlen(format) + 1;
	char *f = (char *)malloc(n);
	memcpy(f, format, n);

	str_sink sink;
	auto res = frg::printf_format(agent{&sink, &vs, loc}, f, &vs);
	free(f);
	va_end(args);
	if(!res) return "<agent error>";
	return sink.out;
}

int main(int argc, char **) {
	// (a) en_US style locale, grouping string in an exact-size heap buffer
	//     (this is what a libc hands over: localeconv()->grouping).
	char *grp = (char *)malloc(2); grp[0] = 3; grp[1] = 0;
	char *sep = (char *)malloc(2); sep[0] = ','; sep[1] = 0;
	char *dp  = (char *)malloc(2); dp[0] = '.'; dp[1] = 0;
	frg::locale_options loc{dp, sep, grp};

	if(argc == 1) {
		std::string r = run(&loc, "%'d", 1234567);
		printf("with locale grouping \"\\3\": [%s]\n", r.c_str());
	} else {
		// (b) default locale_options ("\255" string literal): same under-read.
		std::string r = run(nullptr, "%'d", 7);
		printf("default locale: [%s]\n", r.c_str());
	}
	return 0;
}
