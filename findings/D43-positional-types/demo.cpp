#include <new>
#include <string.h>
#include <string>
#include <stdio.h>
#include <stdarg.h>
#include <stdlib.h>
#include <limits.h>
#include <stdint.h>
#include <frg/printf.hpp>
#include <frg/logging.hpp>
extern "C" void frg_panic(const char *m) { fprintf(stderr, "PANIC: %s\n", m); abort(); }
extern "C" void frg_log(const char *m) { fprintf(stderr, "LOG: %s\n", m); }

// Same agent as in the library's own tests/tests.cpp (TEST(formatting, printf)).
struct test_agent {
	frg::expected<frg::format_error> operator() (char c) { sink_->append(c); return frg::success; }
	frg::expected<frg::format_error> operator() (const char *c, size_t n) { sink_->append(c, n); return frg::success; }
	frg::expected<frg::format_error> operator() (char t, frg::format_options opts, frg::printf_size_mod szmod) {
		switch(t) {
			case 'c': case 'p': case 's':
				frg::do_printf_chars(*sink_, t, opts, szmod, vsp_); break;
			case 'd': case 'i': case 'o': case 'x': case 'X': case 'u':
				frg::do_printf_ints(*sink_, t, opts, szmod, vsp_); break;
			default: abort();
		}
		return frg::success;
	}
	frg::container_logger<std::string> *sink_;
	frg::va_struct *vsp_;
};

static std::string frg_sprintf(const char *format, ...) {
	va_list args; va_start(args, format);
	frg::va_struct vs;
	frg::arg arg_list[10] = {};   // zero-initialised: most favourable for the library
	vs.arg_list = arg_list;
	va_copy(vs.args, args);
	std::string buf;
	frg::container_logger<std::string> sink{buf};
	auto res = frg::printf_format(test_agent{&sink, &vs}, format, &vs);
	if(!res) abort();
	va_end(vs.args);
	va_end(args);
	return buf;
}
// reference: the host C library
static std::string ref_sprintf(const char *format, ...) {
	va_list args; va_start(args, format);
	char b[4096]; vsnprintf(b, sizeof b, format, args); va_end(args); return b;
}
static int fails = 0;
#define T(f, ...) do { std::string r = ref_sprintf(f, __VA_ARGS__), g = frg_sprintf(f, __VA_ARGS__); \
	if(r != g) fails++; \
	printf("%-4s printf(\"%s\", %s): ISO C/libc=[%s] frigg=[%s]\n", r==g?"ok":"DIFF", f, #__VA_ARGS__, r.c_str(), g.c_str()); } while(0)

// D3: positional arguments (%n$) are cached with the type of the directive that happens to fetch
// them FIRST, not with their own type. A directive that names a higher position pulls all lower,
// not-yet-seen positions out of the va_list using ITS OWN type (e.g. int) and stores only
// sizeof(that type) bytes in the cache; when the lower position is later printed with its real
// (wider) type the upper bytes were never fetched.
int main() {
	setvbuf(stdout, nullptr, _IONBF, 0);
	T("%2$d %1$ld", 1L << 40, 2);
	T("%2$d %1$lld", LLONG_MAX, 2);
	T("%3$d %1$lld %2$llu", 1LL << 33, 1ULL << 34, 3);
	T("%2$hhd %1$d", 100000, 5);      // arg 1 fetched as signed char -> truncated to 1 byte
	T("%2$hu %1$x", 0xdeadbeefu, 1);
	T("%2$c%1$ld", 123456789012L, 'x');
	T("%2$d %1$s", "hello", 7);       // 64-bit pointer fetched as int -> wild pointer (may crash)
	printf("mismatches: %d\n", fails);
	return fails != 0;
}
