#include <new>
#include <string.h>
#include <stdio.h>
#include <stdlib.h>
#include <stdarg.h>
#include <limits.h>
#include <string>
#include <frg/printf.hpp>
#include <frg/formatting.hpp>
#include <frg/logging.hpp>

extern "C" void frg_panic(const char *m) { fprintf(stderr, "frg_panic: %s\n", m); abort(); }
extern "C" void frg_log(const char *m) { fprintf(stderr, "frg_log: %s\n", m); }

// The agent from frigg's own tests/tests.cpp (formatting.printf): dispatches to the do_printf_* helpers.
struct agent {
	frg::expected<frg::format_error> operator() (char c) { sink_->append(c); return frg::success; }
	frg::expected<frg::format_error> operator() (const char *c, size_t n) { sink_->append(c, n); return frg::success; }
	frg::expected<frg::format_error> operator() (char t, frg::format_options opts, frg::printf_size_mod szmod) {
		switch(t) {
		case 'c': case 'p': case 's':
			frg::do_printf_chars(*sink_, t, opts, szmod, vsp_); break;
		case 'd': case 'i': case 'o': case 'x': case 'X': case 'u':
			frg::do_printf_ints(*sink_, t, opts, szmod, vsp_); break;
		default: abort();
		}
		return frg::success;
	}
	frg::container_logger<std::string> *sink_;
	frg::va_struct *vsp_;
};

static std::string frg_sprintf(const char *format, ...) {
	va_list args; va_start(args, format);
	frg::va_struct vs; frg::arg arg_list[16];
	vs.arg_list = arg_list; va_copy(vs.args, args);
	std::string buf; frg::container_logger<std::string> sink{buf};
	auto res = frg::printf_format(agent{&sink, &vs}, format, &vs);
	if(!res) abort();
	va_end(vs.args); va_end(args);
	return buf;
}

static int failures = 0, checks = 0;
// Reference: the hosted C library's snprintf (ISO C semantics for these directives).
#define CHECK(fmt, ...) do { \
		char ref[256]; snprintf(ref, sizeof ref, fmt, __VA_ARGS__); \
		std::string got = frg_sprintf(fmt, __VA_ARGS__); checks++; \
		if(got != ref) { failures++; printf("MISMATCH %-12s args(%s): ISO C \"%s\"  frigg \"%s\"\n", fmt, #__VA_ARGS__, ref, got.c_str()); } \
	} while(0)

// C19 / d2: '#' with %o and an explicit precision prints one digit too many.
// ISO C 7.21.6.1p6: "For o conversion, it increases the precision, if and only if necessary, to force
// the first digit of the result to be a zero". frigg instead emits a separate "0" prefix in front of
// the (already zero-extended) digit string whenever the value is non-zero.
// No width, no other flag is involved: the number of digits itself is wrong.
int main() {
	CHECK("%#.2o", 1u);
	CHECK("%#.3o", 1u);
	CHECK("%#.3o", 8u);          // 010 already starts with a zero
	CHECK("%#.5o", 0777u);
	CHECK("%#.4o", 0777u);
	CHECK("%#.12o", UINT_MAX);
	CHECK("%#.25llo", ULLONG_MAX);
	CHECK("%#.23llo", ULLONG_MAX);
	CHECK("%#.4hho", 0xff);
	CHECK("%#.7ho", 0xffff);
	CHECK("%#.*o", 6, 5u);       // precision through '*'
	CHECK("%#.*lo", 70, 1ul);
	CHECK("%1$#.3o", 1u);        // positional
	CHECK("%#.3zo|%#.3jo", (size_t)9, (uintmax_t)9);
	// controls that frigg renders correctly: precision not larger than the digit count, or no '#'
	CHECK("%#.3o", 0777u);
	CHECK("%#.1o", 8u);
	CHECK("%#o", 8u);
	CHECK("%.3o", 1u);

	printf("%d of %d directives differ from ISO C\n", failures, checks);
	return failures ? 1 : 0;
}
