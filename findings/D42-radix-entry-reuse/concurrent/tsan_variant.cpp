// Supplementary to demo.cpp (same root cause): plain-data T, ThreadSanitizer
// shows that, for the happens-before relation induced by the memory orders the
// tree actually uses, the placement-new of a re-insert races with a reader
// that obtained the pointer from a find() overlapping the erase.
#include <new>
#include <string.h>
#include <stdio.h>
#include <stdlib.h>
#include <unistd.h>
#include <atomic>
#include <thread>
#include <vector>
#include <frg/rcu_radixtree.hpp>
extern "C" void frg_panic(const char *s) { fprintf(stderr, "frg_panic: %s\n", s); abort(); }
extern "C" void frg_log(const char *s) { fprintf(stderr, "%s\n", s); }
struct Alloc {
	void *allocate(size_t n) { return malloc(n); }
	void deallocate(void *p, size_t) { ::free(p); }
	void free(void *p) { ::free(p); }
};
struct Val { uint64_t a, b; explicit Val(uint64_t v) : a(v), b(v) {} };
int main() {
	alarm(120);
	constexpr uint64_t K = 0x1234;
	frg::rcu_radixtree<Val, Alloc> tree;
	tree.insert(K, uint64_t(0));
	std::atomic<bool> stop{false};
	std::atomic<long> torn{0};
	std::vector<std::thread> readers;
	for (int r = 0; r < 4; r++)
		readers.emplace_back([&] {
			while (!stop.load(std::memory_order_relaxed)) {
				Val *p = tree.find(K);
				if (p && p->a != p->b) torn++;
			}
		});
	for (uint64_t v = 1; v <= 200000; v++) { tree.erase(K); tree.insert(K, v); }
	stop = true;
	for (auto &t : readers) t.join();
	printf("torn=%ld\n", torn.load());
	return torn.load() ? 1 : 0;
}
