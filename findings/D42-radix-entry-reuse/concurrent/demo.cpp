// C10 demo 1: a concurrent find() hands out a value whose constructor is still
// running (erase + re-insert of the same key recycles the slot with no
// grace period / version check).
//
// Everything the demo itself shares between threads is std::atomic, so the
// demo has no data race of its own; the witness is purely logical:
//   - T's constructor publishes "I am under construction" in a global for its
//     whole duration and writes its two fields at the beginning and at the end;
//   - a reader calls find(k) and looks at the result immediately.
#include <new>
#include <string.h>
#include <stdio.h>
#include <stdlib.h>
#include <unistd.h>
#include <atomic>
#include <thread>
#include <vector>
#include <frg/rcu_radixtree.hpp>

extern "C" void frg_panic(const char *s) { fprintf(stderr, "frg_panic: %s\n", s); abort(); }
extern "C" void frg_log(const char *s) { fprintf(stderr, "%s\n", s); }

struct Alloc {
	void *allocate(size_t n) { return malloc(n); }
	void deallocate(void *p, size_t) { ::free(p); }
	void free(void *p) { ::free(p); }
};

static void spin(int n) { for (int i = 0; i < n; i++) asm volatile("" ::: "memory"); }

struct Val;
static std::atomic<Val *> under_construction{nullptr};

struct Val {
	std::atomic<uint64_t> a, b; // invariant of a fully initialised Val: a == b
	explicit Val(uint64_t v) {
		under_construction.store(this, std::memory_order_seq_cst);
		a.store(v, std::memory_order_relaxed);
		spin(2000);                 // a constructor is allowed to take time
		b.store(v, std::memory_order_relaxed);
		under_construction.store(nullptr, std::memory_order_seq_cst);
	}
};

int main() {
	alarm(120);
	constexpr uint64_t K = 0x1234;
	frg::rcu_radixtree<Val, Alloc> tree;
	tree.insert(K, uint64_t(0));

	std::atomic<bool> stop{false};
	std::atomic<long> in_ctor{0}, torn{0}, finds{0};

	unsigned nthreads = 2 * std::thread::hardware_concurrency() + 2;
	std::vector<std::thread> readers;
	for (unsigned r = 0; r < nthreads; r++)
		readers.emplace_back([&] {
			long n = 0;
			while (!stop.load(std::memory_order_relaxed)) {
				Val *p = tree.find(K);
				n++;
				if (!p)
					continue; // "null" is an allowed answer
				// find() returned non-null: the value must be fully initialised.
				if (under_construction.load(std::memory_order_seq_cst) == p)
					in_ctor++;
				uint64_t b = p->b.load(std::memory_order_acquire);
				uint64_t a = p->a.load(std::memory_order_acquire);
				if (a != b)
					torn++;
			}
			finds += n;
		});

	// The single writer: only insert/erase, strictly alternating, same key.
	uint64_t v = 0;
	for (int i = 0; i < 2000000 && !in_ctor.load() && !torn.load(); i++) {
		spin(2000);       // key is present for a while
		tree.erase(K);
		tree.insert(K, ++v);
	}
	stop = true;
	for (auto &t : readers) t.join();

	printf("finds=%ld writer_cycles=%lu\n", finds.load(), (unsigned long)v);
	printf("find() returned a value whose constructor was still running: %ld times\n", in_ctor.load());
	printf("find() returned a half-initialised value (a != b):            %ld times\n", torn.load());
	if (in_ctor.load() || torn.load()) {
		printf("FAIL: property C10 violated (reader saw partial state)\n");
		return 1;
	}
	printf("not reproduced in this run\n");
	return 0;
}
