#!/bin/sh
set -e
cd "$(dirname "$0")"; out=$(mktemp -d); trap 'rm -rf "$out"' EXIT
g++ -std=c++20 -O2 -g -pthread -I"${FRG_REPO:-/repo}/include" demo.cpp -o $out/demo
$out/demo
