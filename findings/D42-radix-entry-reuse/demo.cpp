// C16 / rcu_radixtree: erase(k) only clears the mask bit; the T stays alive in its slot.
// A later insert / find_or_insert of the same key placement-news a NEW T into that slot
// (case 3 of find_or_insert) -- i.e. constructs an object over a live object. The old value is
// never destroyed, not even by ~rcu_radixtree, so whatever it owns is leaked.
// Single-threaded: there are no concurrent readers that could justify keeping the value alive.
#include <new>
#include <string.h>
#include <stdio.h>
#include <stdlib.h>
#include <set>
#include <map>
#include <frg/rcu_radixtree.hpp>

extern "C" void frg_panic(const char *m) { printf("frg_panic: %s\n", m); abort(); }
extern "C" void frg_log(const char *m) { puts(m); }

static int g_errors = 0;
static std::set<const void *> g_live;

struct Tracked {
	int v;
	char *owned; // a resource, so that LeakSanitizer sees the consequence too
	Tracked(int v) : v(v), owned((char *)malloc(64)) {
		if(!g_live.insert(this).second) {
			printf("VIOLATION: Tracked(%d) constructed over a live object at %p\n", v, (void *)this);
			g_errors++;
		}
	}
	Tracked(const Tracked &) = delete;
	~Tracked() {
		if(!g_live.erase(this)) {
			printf("VIOLATION: destructor on non-live object at %p\n", (void *)this);
			g_errors++;
		}
		free(owned);
	}
};

static std::map<void *, size_t> g_blocks;
struct Alloc {
	void *allocate(size_t n) { void *p = malloc(n); g_blocks[p] = n; return p; }
	void free(void *p) { g_blocks.erase(p); ::free(p); }
	void deallocate(void *p, size_t n) {
		if(!g_blocks.count(p) || g_blocks[p] != n) { printf("VIOLATION: bad deallocate\n"); g_errors++; }
		g_blocks.erase(p); ::free(p);
	}
};

static int g_ctors = 0, g_dtors = 0;
struct Counted {
	Counted(int) { g_ctors++; }
	~Counted() { g_dtors++; }
};

int main() {
	setvbuf(stdout, nullptr, _IONBF, 0);
	{
		frg::rcu_radixtree<Tracked, Alloc> t;
		t.insert(5, 1);
		t.insert(6, 10);
		t.erase(5);
		printf("after erase(5): find(5) = %p\n", (void *)t.find(5));
		t.insert(5, 2);      // <- constructs over the still-living Tracked(1)
		printf("find(5)->v = %d\n", t.find(5)->v);
	}
	// (the registry is keyed by address, so the overwritten Tracked(1) is invisible to it from here on;
	// its 64-byte resource shows up in the LeakSanitizer report at exit)
	printf("node blocks still allocated after the tree is gone: %zu\n", g_blocks.size());

	{
		frg::rcu_radixtree<Counted, Alloc> t;
		for(int round = 0; round < 1000; round++) {
			t.insert(42, round);
			t.erase(42);
		}
		t.insert(42, 0);
	}
	printf("Counted: %d constructed, %d destroyed after ~rcu_radixtree\n", g_ctors, g_dtors);
	if(g_ctors != g_dtors) {
		printf("VIOLATION: %d elements were constructed in the tree and never destroyed\n", g_ctors - g_dtors);
		g_errors++;
	}
	printf("errors: %d\n", g_errors);
	return g_errors ? 1 : 0;
}
