#!/bin/sh
# Replays the demonstration against ${FRG_REPO:-/repo}; point FRG_REPO at a worktree of the commit before the fix to
# see the failure, at the current tree to see it gone.
cd "$(dirname "$0")"
out=$(mktemp -d); trap 'rm -rf "$out"' EXIT
# takes roughly 1 minute (2^32 alloc/free cycles)
g++ -std=c++20 -O2 -I"${FRG_REPO:-/repo}/include" demo.cpp -o $out/demo && $out/demo
