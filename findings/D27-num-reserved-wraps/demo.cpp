// C02 / d1: steady alloc/free churn on one size class makes free() panic after 2^32 cycles.
// slab_frame::num_reserved (unsigned int) is incremented by every allocate() from a slab but
// never decremented by free(); free_in_slab_() asserts that it is non-zero.  After 2^32
// allocations served by the same slab the counter has wrapped to 0 and the next free() of a
// perfectly valid live block dies in FRG_ASSERT(slb->num_reserved).
#include <new>
#include <string.h>
#include <stdio.h>
#include <stdlib.h>
#include <stdint.h>
#include <unistd.h>
#include <frg/slab.hpp>

static uint64_t g_cycles = 0;
static size_t g_maps = 0;

extern "C" void frg_panic(const char *s) {
	printf("frg_panic after %llu alloc/free cycles (maps=%zu): %s\n",
			(unsigned long long)g_cycles, g_maps, s);
	fflush(stdout);
	_exit(1);
}
extern "C" void frg_log(const char *) { }

struct NoMutex { void lock() { } void unlock() { } };

struct Policy {
	uintptr_t map(size_t len) { g_maps++; return (uintptr_t)malloc(len); }
	void unmap(uintptr_t a, size_t) { ::free((void *)a); }
};

int main() {
	alarm(1800);
	Policy pol;
	frg::slab_pool<Policy, NoMutex> pool(pol);

	// One long-lived block with a known pattern (content stability is checked at the end).
	unsigned char *keep = (unsigned char *)pool.allocate(64);
	memset(keep, 0x5A, 64);

	// Steady state: exactly one extra live block of the class at any time.
	const uint64_t N = (uint64_t(1) << 32) + 16;
	for(g_cycles = 0; g_cycles < N; g_cycles++) {
		void *p = pool.allocate(64);
		if(!p) { printf("allocate returned null\n"); return 2; }
		*(volatile char *)p = 1;
		pool.free(p);              // <- panics once the slab's counter wrapped to 0
	}
	for(int i = 0; i < 64; i++)
		if(keep[i] != 0x5A) { printf("content changed\n"); return 3; }
	printf("OK: %llu cycles, maps=%zu\n", (unsigned long long)N, g_maps);
	return 0;
}
