// C16 / manual_box: the class has no user-declared copy/move operations, so it is implicitly
// copyable and assignable. The implicit copy duplicates the raw storage bytes and the
// _initialized flag: the copy claims to hold a T that was never constructed (no T copy
// constructor runs), and destruct() on both boxes destroys "the same" T twice.
// Same defect class as the already-fixed "hash_map was copy-assignable (shallow)" and
// "frg::list ... could be copied shallowly".
#include <new>
#include <string.h>
#include <stdio.h>
#include <stdlib.h>
#include <set>
#include <string>
#include <type_traits>
#include <frg/manual_box.hpp>

extern "C" void frg_panic(const char *m) { printf("frg_panic: %s\n", m); abort(); }
extern "C" void frg_log(const char *m) { puts(m); }

static int g_errors = 0;
static std::set<const void *> g_live;

struct Tracked {
	int v;
	Tracked(int v) : v(v) { g_live.insert(this); }
	Tracked(const Tracked &) = delete;            // not even copyable!
	Tracked &operator=(const Tracked &) = delete;
	~Tracked() {
		if(!g_live.erase(this)) {
			printf("VIOLATION: destructor run at %p where no object was ever constructed\n", (void *)this);
			g_errors++;
		}
	}
};

static_assert(!std::is_copy_constructible_v<Tracked>);

int main() {
	setvbuf(stdout, nullptr, _IONBF, 0);
	printf("manual_box<Tracked> copy-constructible: %d, copy-assignable: %d (Tracked itself: %d)\n",
			(int)std::is_copy_constructible_v<frg::manual_box<Tracked>>,
			(int)std::is_copy_assignable_v<frg::manual_box<Tracked>>,
			(int)std::is_copy_constructible_v<Tracked>);
	{
		frg::manual_box<Tracked> a;
		a.initialize(1);
		frg::manual_box<Tracked> b = a;     // compiles; no Tracked constructor runs
		printf("b.valid() = %d, b->v = %d, objects really alive: %zu\n",
				(int)b.valid(), b->v, g_live.size());
		a.destruct();
		b.destruct();                       // destroys an object that never existed
	}
	{
		// Assignment over an initialized box: the old T is overwritten without being destroyed.
		frg::manual_box<Tracked> a, b;
		a.initialize(1);
		b.initialize(2);
		b = a;                              // Tracked(2) is clobbered bytewise
		printf("after b = a: b->v = %d\n", b->v);
		a.destruct();
		b.destruct();                       // runs ~Tracked on the clobbered object; fine for the
		                                    // registry, but Tracked(2)'s state was lost
	}
	printf("part 1 errors: %d\n", g_errors);

	// Real-world consequence: a T that owns memory is freed twice.
	{
		frg::manual_box<std::string> a;
		a.initialize("a string that is definitely too long for the small-string buffer");
		frg::manual_box<std::string> b = a;
		a.destruct();
		b.destruct();                       // ASan: attempting double-free
	}
	return g_errors ? 1 : 0;
}
