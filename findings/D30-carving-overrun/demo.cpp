// C01 / d1: the last object carved out of a slab sticks out of the slab when the
// (page-multiple, statically accepted) slab size is not a multiple of the item size.
//
// Configuration (everything else is the library default: 13 buckets, largest
// class 0x8000, page 0x1000):
//     slabsize = 0x1C000   (28 pages -- passes "must be a multiple of the page size")
//     sb_size  = 0x20000   (power of two >= slabsize)
// For the 0x8000 class: header overhead 0x8000, slb->length 0x14000, so header + TWO
// objects fit comfortably (0x18000 <= 0x1C000).  _construct_slab nevertheless carves
// THREE objects (off = 0, 0x8000, 0x10000 < length) and the third one is
// [slab+0x18000, slab+0x20000): its upper 0x4000 bytes are beyond the 0x1C000 bytes that
// were obtained from the policy.  The free list is LIFO, so this is the very FIRST block
// that allocate(0x8000) hands out.
#include <new>
#include <string.h>
#include <stdio.h>
#include <stdlib.h>
#include <stdint.h>
#include <signal.h>
#include <unistd.h>
#include <sys/mman.h>
#include <vector>
#include <frg/slab.hpp>

extern "C" void frg_panic(const char *s) { fprintf(stderr, "frg_panic: %s\n", s); abort(); }
extern "C" void frg_log(const char *s) { fprintf(stderr, "frg_log: %s\n", s); }

struct region { uintptr_t base; size_t len; };
static std::vector<region> mapped;          // what the pool currently owns

static bool inside_mapped(uintptr_t p, size_t n) {
	for(auto &r : mapped)
		if(p >= r.base && p + n <= r.base + r.len)
			return true;
	return false;
}

// A bump allocator over one big anonymous mapping; hands out exactly what is asked for.
struct arena {
	uintptr_t cur, end;
	arena() {
		size_t sz = 64u << 20;
		void *m = mmap(nullptr, sz, PROT_READ | PROT_WRITE, MAP_PRIVATE | MAP_ANONYMOUS, -1, 0);
		if(m == MAP_FAILED) abort();
		cur = (uintptr_t)m; end = cur + sz;
	}
	uintptr_t take(size_t len, size_t align) {
		uintptr_t a = (cur + align - 1) & ~(align - 1);
		if(a + len > end) return 0;
		cur = a + len;
		return a;
	}
};
static arena the_arena;

// Policy with an aligned map (the variant managarm's kernel uses).
struct aligned_policy {
	static constexpr size_t slabsize = 0x1C000;
	static constexpr size_t sb_size = 0x20000;
	uintptr_t map(size_t length, size_t align) {
		uintptr_t a = the_arena.take(length, align);
		if(a) mapped.push_back({a, length});
		return a;
	}
	void unmap(uintptr_t base, size_t length) {
		for(size_t i = 0; i < mapped.size(); i++)
			if(mapped[i].base == base && mapped[i].len == length) {
				mapped.erase(mapped.begin() + i);
				return;
			}
		abort();
	}
};

// Policy with the plain (unaligned) map: page 0x1000, 12 buckets (largest class 0x4000),
// slabsize 0xD000 (13 pages: header 0x4000 + two objects = 0xC000 fit), sb_size 0x10000.
struct unaligned_policy {
	static constexpr size_t slabsize = 0xD000;
	static constexpr size_t sb_size = 0x10000;
	static constexpr int num_buckets = 12;
	uintptr_t map(size_t length) {
		// page-aligned result that happens to lie one page behind a 64 KiB boundary
		the_arena.take(0, 0x10000);
		the_arena.take(0x1000, 0x1000);
		uintptr_t a = the_arena.take(length, 0x1000);
		if(a) mapped.push_back({a, length});
		return a;
	}
	void unmap(uintptr_t, size_t) { abort(); }
};

struct nomutex { void lock() {} void unlock() {} };

int main() {
	int bad = 0;

	aligned_policy pol;
	frg::slab_pool<aligned_policy, nomutex> pool{pol};

	const size_t req = 0x8000; // largest small class with the default 13 buckets
	void *p = pool.allocate(req);
	uintptr_t a = (uintptr_t)p;
	printf("allocate(0x%zx) = %p, get_size = 0x%zx\n", req, p, pool.get_size(p));
	for(auto &r : mapped)
		printf("  pool owns [0x%lx, 0x%lx)  (0x%zx bytes)\n", r.base, r.base + r.len, r.len);
	if(!inside_mapped(a, req)) {
		printf("VIOLATION: block [0x%lx, 0x%lx) is not wholly inside memory obtained from the policy\n",
				a, a + req);
		bad = 1;
	}

	// What the violation means in practice: the policy is free to give the bytes right
	// behind the slab to somebody else.  Here the program itself maps one page directly
	// from the same policy object's backing arena (any other client would do).
	uintptr_t foreign = the_arena.take(0x1000, 0x1000);
	memset((void *)foreign, 0xEE, 0x1000);
	printf("foreign page handed out by the same arena: [0x%lx, 0x%lx)\n", foreign, foreign + 0x1000);
	memset(p, 0x11, req); // the client fills the block it was given: perfectly legal
	unsigned char fb = *(volatile unsigned char *)foreign;
	if(fb != 0xEE) {
		printf("VIOLATION: writing to the live block clobbered foreign memory (0x%02x != 0xEE)\n", fb);
		bad = 1;
	}

	// The remaining two objects of this slab are fine:
	void *q = pool.allocate(req), *r = pool.allocate(req);
	printf("next two blocks: %p %s, %p %s\n",
			q, inside_mapped((uintptr_t)q, req) ? "ok" : "OUTSIDE",
			r, inside_mapped((uintptr_t)r, req) ? "ok" : "OUTSIDE");

	// Same defect with the unaligned map() flavour.
	{
		mapped.clear();
		unaligned_policy upol;
		frg::slab_pool<unaligned_policy, nomutex> upool{upol};
		void *u = upool.allocate(0x4000);
		printf("unaligned map: allocate(0x4000) = %p\n", u);
		for(auto &r : mapped)
			printf("  pool owns [0x%lx, 0x%lx)  (0x%zx bytes)\n", r.base, r.base + r.len, r.len);
		if(!inside_mapped((uintptr_t)u, 0x4000)) {
			printf("VIOLATION: block [0x%lx, 0x%lx) is not wholly inside memory obtained from the policy\n",
					(uintptr_t)u, (uintptr_t)u + 0x4000);
			bad = 1;
		}
	}

	if(bad) { printf("FAIL\n"); return 1; }
	printf("PASS\n");
	return 0;
}
