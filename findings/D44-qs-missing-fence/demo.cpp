// D2: await_barrier() computes its target from a *relaxed* load of the period
// counter with no full fence after the caller's preceding stores.  On x86 the
// load can be satisfied while the caller's "unlink" store (p = new object) still
// sits in the store buffer.  A reader that (1) finishes the period, (2) acks the
// next period and (3) then still reads the OLD pointer is not waited for:
// the callback ("free") runs while that reader is inside its read-side section.
//
// Classic RCU usage, nothing exotic:
//   writer:  init(nu); p.store(nu, release); agent.await_barrier(&old->node); agent.run();
//            callback: old->freed = 1   (stands for "free(old)")
//   reader:  agent.quiescent_state(); o = p.load(acquire); ... use o ...; (next quiescent_state)
//            FAIL if o->freed becomes 1 while the reader is still using o.
#include <new>
#include <string.h>
#include <stdio.h>
#include <stdlib.h>
#include <stdint.h>
#include <unistd.h>
#include <sched.h>
#include <atomic>
#include <mutex>
#include <thread>
#include <x86intrin.h>
#include <frg/qs.hpp>

extern "C" void frg_panic(const char *msg) {
	fprintf(stderr, "frg_panic: %s\n", msg);
	_exit(3);
}
extern "C" void frg_log(const char *msg) { fprintf(stderr, "frg_log: %s\n", msg); }

using mutex_t = std::mutex;          // any correct mutex; it plays no role in the bug

constexpr int kLines = 40;           // cache lines the writer initialises per object

struct alignas(64) object {
	frg::qs_node node;               // must stay first (callback casts node -> object)
	std::atomic<int> freed;
	std::atomic<uint64_t> serial;
	char pad[64];
	struct alignas(64) { volatile uint64_t v; } payload[kLines];
};

alignas(64) static frg::qs_domain<mutex_t> dom;
alignas(64) static std::atomic<object *> p{nullptr};
alignas(64) static std::atomic<bool> stop{false};
alignas(64) static std::atomic<int> ready{0};

// writer-private free list (callbacks run on the writer thread, inside run())
static object **free_ring;            // FIFO ring of unused objects (capacity = #objects)
static size_t ring_cap, free_head = 0, free_tail = 0;
static long outstanding = 0;
static unsigned long n_freed = 0;

static void on_gp(frg::qs_node *n) {
	object *o = reinterpret_cast<object *>(n);
	o->freed.store(1, std::memory_order_release);   // "free(o)"
	free_ring[free_tail++ % ring_cap] = o;            // recycled only ~70000 grace periods later
	outstanding--;
	n_freed++;
}

static void pin(int cpu) {
	cpu_set_t s; CPU_ZERO(&s); CPU_SET(cpu, &s);
	sched_setaffinity(0, sizeof s, &s);
}

static void writer(int cpu) {
	pin(cpu);
	frg::qs_agent<mutex_t> ag(&dom);             // online
	ready.fetch_add(1);
	while(ready.load() < 2) { }
	object *cur = p.load(std::memory_order_relaxed);
	uint64_t serial = 1;
	while(!stop.load(std::memory_order_relaxed)) {
		ag.quiescent_state();
		if(outstanding < 4 && free_head < free_tail) {
			object *nu = free_ring[free_head++ % ring_cap];
			// initialise the new version (plain stores to cold cache lines) ...
			nu->freed.store(0, std::memory_order_relaxed);
			nu->serial.store(serial, std::memory_order_relaxed);
			for(int i = 0; i < kLines; i++)
				nu->payload[i].v = serial;
			serial++;
			// ... publish it (rcu_assign_pointer) ...
			p.store(nu, std::memory_order_release);
			// ... and ask for a grace period before "freeing" the old version.
			object *old = cur;
			cur = nu;
			old->node.on_grace_period = on_gp;
			outstanding++;
			ag.await_barrier(&old->node);
		}
		ag.run();
	}
	ag.offline();
}

static std::atomic<unsigned long> sections{0};

static void reader(int cpu) {
	pin(cpu);
	frg::qs_agent<mutex_t> ag(&dom);             // online
	ready.fetch_add(1);
	while(ready.load() < 2) { }
	uint64_t rng = 88172645463325252ull;
	unsigned long n = 0;
	while(!stop.load(std::memory_order_relaxed)) {
		ag.quiescent_state();
		// ---- read-side section begins ----
		object *o = p.load(std::memory_order_acquire);      // rcu_dereference
		rng ^= rng << 13; rng ^= rng >> 7; rng ^= rng << 17;
		uint64_t len = 0;                                    // in TSC ticks
		if(rng & 1)
			len = (rng >> 8) % 8000;                         // up to ~4us
		uint64_t t0 = __rdtsc();
		do {
			if(o->freed.load(std::memory_order_acquire)) {
				printf("FAIL: object %p (serial %lu) was handed to its grace-period callback "
						"(\"freed\") while the reader was still inside the read-side section "
						"in which it obtained the pointer (section #%lu, %lu ticks into the section)\n",
						(void *)o, (unsigned long)o->serial.load(), n,
						(unsigned long)(__rdtsc() - t0));
				fflush(stdout);
				_exit(1);
			}
		} while(__rdtsc() - t0 < len);
		// ---- read-side section ends (next quiescent_state) ----
		n++;
		if(!(n & 0xfff)) sections.store(n, std::memory_order_relaxed);
	}
	ag.offline();
}

int main(int argc, char **argv) {
	int secs = argc > 1 ? atoi(argv[1]) : 60;
	alarm(secs + 60);
	int cpu_w = argc > 2 ? atoi(argv[2]) : 2;
	int cpu_r = argc > 3 ? atoi(argv[3]) : 5;
	size_t nobj = (size_t(192) << 20) / sizeof(object);
	object *pool = static_cast<object *>(aligned_alloc(64, nobj * sizeof(object)));
	memset((void *)pool, 0, nobj * sizeof(object));
	for(size_t i = 0; i < nobj; i++) new (&pool[i]) object;
	ring_cap = nobj;
	free_ring = new object *[ring_cap];
	for(size_t i = 1; i < nobj; i++) free_ring[free_tail++] = &pool[i];
	p.store(&pool[0]);

	std::thread tw(writer, cpu_w), tr(reader, cpu_r);
	sleep(secs);
	stop.store(true);
	tw.join(); tr.join();
	printf("not reproduced in this run: %lu grace periods, %lu reader sections\n",
			n_freed, sections.load());
	return 0;
}
