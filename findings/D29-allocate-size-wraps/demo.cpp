// C03 / d1: size rounding in slab_pool::allocate() wraps around for lengths close to SIZE_MAX.
// allocate(n) with n > SIZE_MAX - (page_size-1) computes area_size == 0, maps ONE padding page and
// returns a non-null "live block" of length 0 located exactly at the END of the mapped region.
// realloc(p, n) then makes the POOL ITSELF memcpy the old contents to that address, i.e. the pool
// writes bytes that are poisoned / outside every region it mapped.
#include <new>
#include <string.h>
#include <stdio.h>
#include <stdlib.h>
#include <stdint.h>
#include <map>
#include <sys/mman.h>
#include <sanitizer/asan_interface.h>
#include <frg/slab.hpp>

extern "C" void frg_panic(const char *s) { fprintf(stderr, "frg_panic: %s\n", s); abort(); }
extern "C" void frg_log(const char *s) { fprintf(stderr, "frg_log: %s\n", s); }

// Aligned-map policy with poison hooks. Everything that is not (mapped && unpoisoned) is ASAN-poisoned,
// so ASAN reports any access of the pool (or the user) to a poisoned byte.
struct Policy {
	std::map<uintptr_t, size_t> live;
	size_t last_map_len = 0;

	uintptr_t map(size_t len, size_t align) {
		last_map_len = len;
		size_t total = len + align + 0x2000;
		char *raw = (char *)mmap(nullptr, total, PROT_READ | PROT_WRITE, MAP_PRIVATE | MAP_ANONYMOUS, -1, 0);
		if(raw == MAP_FAILED) return 0; // a policy may refuse
		ASAN_POISON_MEMORY_REGION(raw, total);   // fresh memory is poisoned, slack/guard stays poisoned forever
		uintptr_t a = ((uintptr_t)raw + align - 1) & ~(align - 1);
		live[a] = len;
		return a;
	}
	void unmap(uintptr_t a, size_t len) {
		auto it = live.find(a);
		if(it == live.end() || it->second != len) { fprintf(stderr, "bad unmap\n"); abort(); }
		ASAN_POISON_MEMORY_REGION((void *)a, len);
		live.erase(it);
	}
	void poison(void *p, size_t n) { ASAN_POISON_MEMORY_REGION(p, n); }
	void unpoison(void *p, size_t n) { ASAN_UNPOISON_MEMORY_REGION(p, n); }
	void unpoison_expand(void *p, size_t n) { ASAN_UNPOISON_MEMORY_REGION(p, n); }
};
struct NoMutex { void lock() {} void unlock() {} };

int main() {
	Policy pol;
	frg::slab_pool<Policy, NoMutex> pool(pol);
	int bad = 0;

	// Part 1: plain allocate of an impossible size "succeeds".
	size_t n = SIZE_MAX - 100;
	char *h = (char *)pool.allocate(n);
	if(h) {
		printf("allocate(%zu) returned %p (non-null); get_size()=%zu; map() was asked for only %zu bytes\n",
				n, (void *)h, pool.get_size(h), pol.last_map_len);
		printf("first requested byte poisoned? %d\n", __asan_address_is_poisoned(h));
		bad = 1;
		pool.free(h);
	}

	// Part 2: realloc to such a size -> the pool itself copies into the zero-length block.
	char *p = (char *)pool.allocate(100);
	memset(p, 'x', 100);
	fflush(stdout);
	char *q = (char *)pool.realloc(p, n);   // expected: nullptr, p untouched
	printf("realloc(p, %zu) returned %p\n", n, (void *)q);
	return bad || q != nullptr;
}
