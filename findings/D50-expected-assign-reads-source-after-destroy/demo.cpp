// expected::operator=(const expected &) with a source that lives inside the target's held value
#include <new>
#include <string.h>
#include <memory>
#include <stdio.h>
#include <frg/expected.hpp>
enum class Err { ok = 0, bad = 1 };
struct Node;
using Exp = frg::expected<Err, Node>;
struct Node { int v; std::shared_ptr<Exp> next; };   // owns the next link
int main() {
	auto tail = std::make_shared<Exp>(Node{2, nullptr});
	Exp cur{Node{1, tail}};
	tail.reset();                         // cur's value is now the only owner of the second expected
	cur = *cur.value().next;              // source lives inside the value that operator= destroys first
	printf("cur.v=%d\n", cur.value().v);
	return cur.value().v == 2 ? 0 : 1;
}
