// swap(v, v) on a small_vector that is in inline mode: since commit fed308b the inline
// elements are exchanged one by one, and for a == b the loop move-constructs every element
// FROM ITS OWN, ALREADY DESTROYED storage (ac[i] and bc[i] are the same object).
// vector, dyn_array and a heap-mode small_vector all tolerate self-swap (as every standard
// container does: std::swap(x, x) / x.swap(x) is valid); the inline mode does not.
#include <new>
#include <string.h>
#include <cstdio>
#include <cstdlib>
#include <utility>
#include <frg/std_compat.hpp>
#include <frg/vector.hpp>
#include <frg/small_vector.hpp>

extern "C" void frg_panic(const char *s) { fprintf(stderr, "frg_panic: %s\n", s); abort(); }
extern "C" void frg_log(const char *s) { fprintf(stderr, "frg_log: %s\n", s); }

// An ordinary deep-copying value type (copy constructor only, "observable copy").
struct blob {
	explicit blob(const char *s) : n{strlen(s) + 1}, p{new char[n]} { memcpy(p, s, n); }
	blob(const blob &o) : blob{o.p} { }                                   // reads o.p[0..n)
	blob &operator=(const blob &) = delete;
	~blob() { delete[] p; }
	size_t n;
	char *p;
};

template<typename V>
void self_swap(V &v) {
	using std::swap;
	swap(v, v);
}

int main() {
	setvbuf(stdout, nullptr, _IONBF, 0);

	frg::vector<blob, frg::stl_allocator> v;
	v.push_back(blob{"hello"});
	self_swap(v);
	printf("vector self-swap ok: %s\n", v[0].p);

	frg::small_vector<blob, 4, frg::stl_allocator> big;
	for(int i = 0; i < 6; i++)
		big.push_back(blob{"hello"});        // > N: heap mode
	self_swap(big);
	printf("small_vector (heap mode, size 6 > N=4) self-swap ok: %s\n", big[0].p);

	frg::small_vector<blob, 4, frg::stl_allocator> small;
	small.push_back(blob{"hello"});              // <= N: inline mode
	self_swap(small);                            // heap-use-after-free inside blob(const blob &)
	printf("small_vector (inline mode, size 1 <= N=4) self-swap ok: %s\n", small[0].p);
	return 0;
}
