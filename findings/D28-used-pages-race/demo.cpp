// C05 / d2: slab_pool::numUsedPages() reads _usedPages without taking _tree_mutex, while
// allocate()/free() update it under _tree_mutex  ->  data race on pool state.
#include <new>
#include <string.h>
#include <stdio.h>
#include <stdlib.h>
#include <unistd.h>
#include <sys/mman.h>
#include <thread>
#include <mutex>
#include <atomic>
#include <frg/slab.hpp>

extern "C" void frg_panic(const char *s) { fprintf(stderr, "PANIC: %s\n", s); _exit(3); }
extern "C" void frg_log(const char *s) { fprintf(stderr, "LOG: %s\n", s); }

struct Policy {
	uintptr_t map(size_t n) {
		void *p = mmap(nullptr, n, PROT_READ | PROT_WRITE, MAP_PRIVATE | MAP_ANONYMOUS, -1, 0);
		return p == MAP_FAILED ? 0 : (uintptr_t)p;
	}
	void unmap(uintptr_t a, size_t n) { munmap((void *)a, n); }
};
struct Mutex { // a correct mutex
	std::mutex m;
	void lock() { m.lock(); }
	void unlock() { m.unlock(); }
};

Policy pol;
frg::slab_pool<Policy, Mutex> pool{pol};

int main() {
	alarm(120);
	std::atomic<bool> stop{false};
	// Thread 1: plain allocate/free of large objects (each one updates _usedPages under _tree_mutex).
	std::thread worker([&] {
		for(int i = 0; i < 20000; i++) {
			void *p = pool.allocate(100000);
			pool.free(p);
		}
		stop.store(true);
	});
	// Thread 2: statistics reader, uses only the public accessor.
	size_t max_seen = 0;
	std::thread monitor([&] {
		while(!stop.load()) {
			size_t n = pool.numUsedPages();
			if(n > max_seen)
				max_seen = n;
		}
	});
	worker.join();
	monitor.join();
	printf("max used pages seen: %zu\n", max_seen);
	return 0;
}
