// D1: an agent that is the (deferring) last acker of a period cannot go offline:
// qs_agent::offline() panics ("TODO: We need to handle this case here").
#include <new>
#include <string.h>
#include <stdio.h>
#include <stdlib.h>
#include <mutex>
#include <frg/qs.hpp>

extern "C" void frg_panic(const char *msg) {
	fprintf(stderr, "frg_panic: %s\n", msg);
	exit(3);
}
extern "C" void frg_log(const char *msg) { fprintf(stderr, "frg_log: %s\n", msg); }

static int fired;
static void cb(frg::qs_node *) { fired++; }

int main() {
	// Two agents; everybody reports a quiescent state; nobody has asked for a
	// grace period, so the last acker of the period (here: a) *defers* the advance
	// (_qs_deferred = true).  Then that agent leaves.  Perfectly ordinary
	// "agent leaving mid-period" -- but offline() cannot handle it.
	// (Even shorter trigger: one agent, a.quiescent_state(); a.offline();)
	frg::qs_domain<std::mutex> dom;
	frg::qs_agent<std::mutex> a(&dom);   // ctor calls online()
	frg::qs_agent<std::mutex> b(&dom);
	a.quiescent_state();
	b.quiescent_state();
	a.quiescent_state();
	b.quiescent_state();
	printf("both agents reported quiescent states; now a.offline()\n");
	fflush(stdout);
	a.offline();                          // <-- panics at qs.hpp:127
	printf("a went offline fine\n");

	// If we got here the library handled it; make sure grace periods still work.
	frg::qs_node n; n.on_grace_period = cb;
	b.await_barrier(&n);
	for(int i = 0; i < 10 && !fired; i++) { b.quiescent_state(); b.run(); }
	if(!fired) { printf("FAIL: grace period lost\n"); return 1; }
	printf("OK\n");
	return 0;
}
