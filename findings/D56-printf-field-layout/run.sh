#!/bin/sh
# Replays the sweep against ${FRG_REPO:-/repo}; point FRG_REPO at a worktree of the commit before the fix to see the
# mismatches (the first 400000 are printed), at the current tree to see none.
cd "$(dirname "$0")"
out=$(mktemp -d); trap 'rm -rf "$out"' EXIT
g++ -std=c++20 -g -O1 -w -I"${FRG_REPO:-/repo}/include" demo.cpp -o $out/demo && $out/demo | tail -3
