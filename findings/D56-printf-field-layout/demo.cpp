#include <new>
#include <string.h>
#include <stdio.h>
#include <stdlib.h>
#include <stdarg.h>
#include <limits.h>
#include <stdint.h>
#include <string>
#include <vector>
#include <frg/printf.hpp>
#include <frg/formatting.hpp>
#include <frg/logging.hpp>
extern "C" void frg_panic(const char *m) { fprintf(stderr, "frg_panic: %s\n", m); abort(); }
extern "C" void frg_log(const char *m) { fprintf(stderr, "frg_log: %s\n", m); }
struct agent {
	frg::expected<frg::format_error> operator() (char c) { sink_->append(c); return frg::success; }
	frg::expected<frg::format_error> operator() (const char *c, size_t n) { sink_->append(c, n); return frg::success; }
	frg::expected<frg::format_error> operator() (char t, frg::format_options opts, frg::printf_size_mod szmod) {
		switch(t) {
		case 'c': case 'p': case 's': frg::do_printf_chars(*sink_, t, opts, szmod, vsp_); break;
		case 'd': case 'i': case 'o': case 'x': case 'X': case 'u': frg::do_printf_ints(*sink_, t, opts, szmod, vsp_); break;
		default: abort();
		}
		return frg::success;
	}
	frg::container_logger<std::string> *sink_;
	frg::va_struct *vsp_;
};
static std::string frg_sprintf(const char *format, ...) {
	va_list args; va_start(args, format);
	frg::va_struct vs; frg::arg arg_list[16];
	vs.arg_list = arg_list; va_copy(vs.args, args);
	std::string buf; frg::container_logger<std::string> sink{buf};
	auto res = frg::printf_format(agent{&sink, &vs}, format, &vs);
	if(!res) abort();
	va_end(vs.args); va_end(args);
	return buf;
}
static long fails = 0, checks = 0;
template<typename... A> void chk(const std::string &f, A... a) {
	char ref[512]; snprintf(ref, sizeof ref, f.c_str(), a...);
	std::string got = frg_sprintf(f.c_str(), a...); checks++;
	if(got != ref) { if(fails++ < 400000) printf("MISMATCH %-14s: ISO C \"%s\"  frigg \"%s\"\n", f.c_str(), ref, got.c_str()); }
}
int main() {
	const char *flagsets[] = {"", "-", "+", " ", "#", "0", "-0", "+0", " 0", "#0", "-+", "-#", "+#", "-+0", "+ ", "-+ #0", "#-0", "+#0"};
	const char *widths[] = {"", "0", "1", "2", "5", "8", "12", "*"};
	const char *precs[] = {"", ".", ".0", ".1", ".3", ".7", ".*"};
	long long sv[] = {0, 1, -1, 7, -7, 42, -42, 255, -256, 32767, -32768, 65535, 2147483647LL, -2147483648LL, 4294967295LL, LLONG_MAX, LLONG_MIN, 100000, -99999};
	int starw[] = {0, 6, -6, 1};
	int starp[] = {0, 4, -1, -5};
	for(auto fl : flagsets) for(auto w : widths) for(auto p : precs) {
		for(const char *conv : {"d", "i", "u", "o", "x", "X"}) {
			bool sgn = conv[0] == 'd' || conv[0] == 'i';
			std::string flags = fl;
			if(sgn && flags.find('#') != std::string::npos) continue;          // frigg asserts; undefined in ISO C
			if(!sgn && conv[0] == 'u' && flags.find('#') != std::string::npos) continue;
			for(const char *mod : {"hh", "h", "", "l", "ll", "z", "j"}) {
				std::string f = std::string("[%") + flags + w + p + mod + conv + "]";
				bool sw = strcmp(w, "*") == 0, sp = strcmp(p, ".*") == 0;
				for(long long v : sv) {
					for(int wi = 0; wi < (sw ? 4 : 1); wi++) for(int pi = 0; pi < (sp ? 4 : 1); pi++) {
#define CALL(T) do { if(sw && sp) chk(f, starw[wi], starp[pi], (T)v); else if(sw) chk(f, starw[wi], (T)v); else if(sp) chk(f, starp[pi], (T)v); else chk(f, (T)v); } while(0)
						if(!strcmp(mod, "hh") || !strcmp(mod, "h") || !strcmp(mod, "")) { if(sgn) CALL(int); else CALL(unsigned); }
						else if(!strcmp(mod, "l")) { if(sgn) CALL(long); else CALL(unsigned long); }
						else if(!strcmp(mod, "ll")) { if(sgn) CALL(long long); else CALL(unsigned long long); }
						else if(!strcmp(mod, "z")) { if(sgn) CALL(ssize_t); else CALL(size_t); }
						else { if(sgn) CALL(intmax_t); else CALL(uintmax_t); }
					}
				}
			}
		}
	}
	// positional and mixed
	chk("%2$5d|%1$-5d|", 1, 2); 
	chk("%5c|%-5c|%c", 'a', 'b', 'c'); chk("%10s|%-10s|%.2s|%10.3s|", "abc", "def", "ghij", "klmno"); chk("%%|%5d%%", 3);
	printf("%ld checks, %ld mismatches\n", checks, fails);
	return fails ? 1 : 0;
}
