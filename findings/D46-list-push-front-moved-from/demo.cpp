// intrusive_list with an owning OwnerPointer (the reason why the hook has separate
// owner_pointer / borrow_pointer types): push_front() on a non-empty list uses _front
// after it has been moved from.
#include <new>
#include <string.h>
#include <cstdio>
#include <cstdlib>
#include <csignal>
#include <unistd.h>
#include <utility>
#include <vector>
#include <deque>
#include <frg/list.hpp>

extern "C" void frg_panic(const char *s) { fprintf(stderr, "frg_panic: %s\n", s); abort(); }
extern "C" void frg_log(const char *s) { fprintf(stderr, "frg_log: %s\n", s); }

// A minimal unique-ownership pointer: move-only, moved-from == null (like std::unique_ptr,
// smarter::shared_ptr, ...), implicitly convertible to the borrow pointer T * as the list
// requires (front() returns _front as borrow_pointer, pop_front() passes _front to h()).
template<typename T>
struct own_ptr {
	own_ptr() : p_{nullptr} { }
	own_ptr(decltype(nullptr)) : p_{nullptr} { }
	explicit own_ptr(T *p) : p_{p} { }
	own_ptr(const own_ptr &) = delete;
	own_ptr(own_ptr &&o) : p_{o.p_} { o.p_ = nullptr; }
	own_ptr &operator=(own_ptr o) { std::swap(p_, o.p_); return *this; }
	~own_ptr() { delete p_; }
	explicit operator bool() const { return p_; }
	operator T *() const { return p_; }
	T *get() const { return p_; }
private:
	T *p_;
};

struct node;
using hook_t = frg::intrusive_list_hook<own_ptr<node>, node *>;
struct node {
	explicit node(int v) : value{v} { }
	int value;
	hook_t hook;
};

// The extension point the library declares for non-raw pointers (primary template in
// frg/intrusive.hpp is only declared; T*,T* is the one specialization that is provided).
namespace frg {
template<>
struct intrusive_traits<node, own_ptr<node>, node *> {
	static node *decay(const own_ptr<node> &owner) { return owner.get(); }
};
}

using list_t = frg::intrusive_list<node, frg::locate_member<node, hook_t, &node::hook>>;

static void check(list_t &l, const std::deque<int> &ref, const char *what) {
	std::vector<int> fwd;
	for(auto it = l.begin(); it != l.end(); ++it)
		fwd.push_back((*it)->value);
	std::vector<int> bwd;
	for(node *p = l.back(); p; p = p->hook.previous)
		bwd.insert(bwd.begin(), p->value);
	std::vector<int> r(ref.begin(), ref.end());
	if(fwd != r || bwd != r || l.empty() != ref.empty()) {
		fprintf(stderr, "MISMATCH after %s\n", what);
		exit(1);
	}
	printf("ok after %s (size %zu)\n", what, ref.size());
}

static void on_segv(int) {
	const char msg[] = "SIGSEGV inside intrusive_list::push_front (h(_front) after std::move(_front))\n";
	(void)!write(2, msg, sizeof(msg) - 1);
	_exit(2);
}

int main() {
	setvbuf(stdout, nullptr, _IONBF, 0);
	signal(SIGSEGV, on_segv);
	list_t l;
	std::deque<int> ref;

	// push_back with the very same pointer types works ...
	l.push_back(own_ptr<node>{new node{1}}); ref.push_back(1);
	check(l, ref, "push_back(1)");
	l.push_back(own_ptr<node>{new node{2}}); ref.push_back(2);
	check(l, ref, "push_back(2)");
	{ auto e = l.pop_front(); ref.pop_front(); }
	check(l, ref, "pop_front");
	{ auto e = l.erase(l.begin()); ref.pop_front(); }
	check(l, ref, "erase(begin)");

	// ... and so does push_front on an empty list ...
	l.push_front(own_ptr<node>{new node{3}}); ref.push_front(3);
	check(l, ref, "push_front(3) on empty list");

	// ... but push_front on a non-empty list dereferences the moved-from _front.
	l.push_front(own_ptr<node>{new node{4}}); ref.push_front(4);
	check(l, ref, "push_front(4) on non-empty list");

	l.clear();
	puts("all ok");
	return 0;
}
