#!/bin/sh
# Builds the frgx extractor (libTooling, clang 14). Offline; ~20 s.
set -e
cd "$(dirname "$0")/.."
mkdir -p build
if [ build/frgx -nt frgx/frgx.cc ]; then exit 0; fi
clang++ $(llvm-config-14 --cxxflags) -std=c++17 -fno-rtti -O1 frgx/frgx.cc -o build/frgx \
	/usr/lib/llvm-14/lib/libclang-cpp.so.14 /usr/lib/llvm-14/lib/libLLVM-14.so
