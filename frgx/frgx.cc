// frgx — event-CFG extractor for the frigg static checks.
//
// Usage: frgx --root=/repo/include --out=unit.json unit.cpp -- <clang flags>
//
// For every non-dependent function with a body whose definition lies under
// --root (template instantiations included) it writes:
//   * the full statement/expression forest as a node table (resolved callees,
//     fields, evaluated integer constants, types, source locations), and
//   * clang's CFG over those nodes (setAllAlwaysAdd: every sub-expression is a
//     CFG element, so element order is evaluation order), with implicit
//     destructors and constructor initialisers as synthetic nodes.
// For every complete class under --root it writes fields, bases and methods.
// Nothing is executed; the tool only parses (-fsyntax-only semantics).

#include "clang/AST/ASTConsumer.h"
#include "clang/AST/ASTContext.h"
#include "clang/AST/RecordLayout.h"
#include "clang/AST/RecursiveASTVisitor.h"
#include "clang/AST/ParentMap.h"
#include "clang/AST/ExprCXX.h"
#include "clang/AST/StmtCXX.h"
#include "clang/Analysis/CFG.h"
#include "clang/Analysis/AnalysisDeclContext.h"
#include "clang/Basic/Builtins.h"
#include "clang/Frontend/CompilerInstance.h"
#include "clang/Frontend/FrontendAction.h"
#include "clang/Frontend/TextDiagnosticPrinter.h"
#include "clang/Lex/Lexer.h"
#include "clang/Tooling/CompilationDatabase.h"
#include "clang/Tooling/Tooling.h"
#include "llvm/Support/JSON.h"
#include "llvm/Support/raw_ostream.h"
#include "llvm/Support/FileSystem.h"

#include <map>
#include <set>
#include <string>
#include <vector>

using namespace clang;

static std::string gRoot;
static std::string gOut;

namespace {

struct DiagRecord {
	std::string level, text, file;
	unsigned line = 0;
	std::string option;
};
static std::vector<DiagRecord> gDiags;
static unsigned gErrors = 0;

class CollectDiags : public DiagnosticConsumer {
public:
	void HandleDiagnostic(DiagnosticsEngine::Level lvl, const Diagnostic &info) override {
		DiagnosticConsumer::HandleDiagnostic(lvl, info);
		if(lvl < DiagnosticsEngine::Warning)
			return;
		DiagRecord r;
		r.level = lvl >= DiagnosticsEngine::Error ? "error" : "warning";
		if(lvl >= DiagnosticsEngine::Error)
			gErrors++;
		llvm::SmallString<256> buf;
		info.FormatDiagnostic(buf);
		r.text = std::string(buf.str());
		if(info.hasSourceManager() && info.getLocation().isValid()) {
			auto &sm = info.getSourceManager();
			auto pl = sm.getPresumedLoc(sm.getExpansionLoc(info.getLocation()));
			if(pl.isValid()) {
				r.file = pl.getFilename();
				r.line = pl.getLine();
			}
		}
		r.option = std::string(DiagnosticIDs::getWarningOptionForDiag(info.getID()));
		gDiags.push_back(std::move(r));
	}
};

struct Extractor : RecursiveASTVisitor<Extractor> {
	ASTContext &ctx;
	SourceManager &sm;
	llvm::json::OStream &J;
	PrintingPolicy pp;
	std::map<const Decl *, int> declIds;
	std::set<const Decl *> doneFns;
	std::set<const Decl *> doneRecs;
	std::vector<const CXXRecordDecl *> records;
	unsigned nFunctions = 0;

	Extractor(ASTContext &c, llvm::json::OStream &j)
	: ctx{c}, sm{c.getSourceManager()}, J{j}, pp{c.getPrintingPolicy()} {
		pp.SuppressTagKeyword = true;
		pp.Bool = true;
		pp.SuppressUnwrittenScope = true;
	}

	bool shouldVisitTemplateInstantiations() const { return true; }
	bool shouldVisitImplicitCode() const { return false; }

	int declId(const Decl *d) {
		if(!d) return -1;
		d = d->getCanonicalDecl();
		auto it = declIds.find(d);
		if(it != declIds.end()) return it->second;
		int id = declIds.size() + 1;
		declIds[d] = id;
		return id;
	}

	bool underRoot(SourceLocation loc) {
		if(loc.isInvalid()) return false;
		auto f = sm.getFilename(sm.getExpansionLoc(loc));
		if(f.empty()) {
			auto pl = sm.getPresumedLoc(sm.getExpansionLoc(loc));
			if(!pl.isValid()) return false;
			f = pl.getFilename();
		}
		return f.startswith(gRoot);
	}

	std::string locStr(SourceLocation loc) {
		if(loc.isInvalid()) return "";
		auto pl = sm.getPresumedLoc(sm.getExpansionLoc(loc));
		if(!pl.isValid()) return "";
		std::string f = pl.getFilename();
		return f + ":" + std::to_string(pl.getLine()) + ":" + std::to_string(pl.getColumn());
	}

	std::string typeStr(QualType t) {
		if(t.isNull()) return "";
		return t.getAsString(pp);
	}

	// Qualified name with all template arguments stripped ("frg::slab_pool::allocate").
	std::string uqName(const NamedDecl *nd) {
		if(!nd) return "";
		std::vector<std::string> parts;
		std::string own;
		if(nd->getDeclName().isIdentifier())
			own = std::string(nd->getName());
		else
			own = nd->getDeclName().getAsString();
		if(auto *cd = dyn_cast<CXXConstructorDecl>(nd))
			own = "<ctor>", (void)cd;
		else if(isa<CXXDestructorDecl>(nd))
			own = "<dtor>";
		else if(isa<CXXConversionDecl>(nd))
			own = "operator " + typeStr(cast<CXXConversionDecl>(nd)->getConversionType());
		parts.push_back(own);
		const DeclContext *dc = nd->getDeclContext();
		while(dc) {
			if(auto *ns = dyn_cast<NamespaceDecl>(dc)) {
				if(!ns->isAnonymousNamespace() && !ns->isInline())
					parts.push_back(std::string(ns->getName()));
			}else if(auto *rd = dyn_cast<RecordDecl>(dc)) {
				if(rd->getDeclName().isIdentifier() && !rd->getName().empty())
					parts.push_back(std::string(rd->getName()));
				else if(auto *cx = dyn_cast<CXXRecordDecl>(rd); cx && cx->isLambda())
					parts.push_back("<lambda>");
				else
					parts.push_back("<anon>");
			}else if(auto *fd = dyn_cast<FunctionDecl>(dc)) {
				if(fd->getDeclName().isIdentifier())
					parts.push_back(std::string(fd->getName()) + "()");
				else
					parts.push_back(fd->getDeclName().getAsString() + "()");
			}else if(auto *ed = dyn_cast<EnumDecl>(dc)) {
				if(ed->isScoped())
					parts.push_back(std::string(ed->getName()));
			}
			dc = dc->getParent();
		}
		std::string r;
		for(auto it = parts.rbegin(); it != parts.rend(); ++it) {
			if(!r.empty()) r += "::";
			r += *it;
		}
		return r;
	}

	std::string recQn(const CXXRecordDecl *rd) {
		std::string s;
		llvm::raw_string_ostream os(s);
		rd->getNameForDiagnostic(os, pp, true);
		return os.str();
	}

	SourceLocation patternLoc(const CXXRecordDecl *rd) {
		if(auto *pat = rd->getTemplateInstantiationPattern())
			return pat->getLocation();
		return rd->getLocation();
	}

	std::string recordUq(QualType t) {
		if(t.isNull()) return "";
		t = t.getNonReferenceType().getCanonicalType();
		if(auto *rd = t->getAsCXXRecordDecl())
			return uqName(rd);
		return "";
	}
	std::string pointeeRecordUq(QualType t) {
		if(t.isNull()) return "";
		t = t.getNonReferenceType().getCanonicalType();
		if(t->isPointerType())
			return recordUq(t->getPointeeType());
		return "";
	}

	std::string fnTArgs(const FunctionDecl *fd) {
		std::string s;
		if(auto *args = fd->getTemplateSpecializationArgs()) {
			llvm::raw_string_ostream os(s);
			printTemplateArgumentList(os, args->asArray(), pp);
		}
		return s;
	}

	const char *fnKind(const FunctionDecl *fd) {
		if(isa<CXXConstructorDecl>(fd)) return "ctor";
		if(isa<CXXDestructorDecl>(fd)) return "dtor";
		if(isa<CXXConversionDecl>(fd)) return "conv";
		if(fd->isOverloadedOperator()) return "op";
		if(isa<CXXMethodDecl>(fd)) return "method";
		return "func";
	}

	void emitCallee(const FunctionDecl *fd) {
		J.attributeBegin("callee");
		J.objectBegin();
		J.attribute("qn", fd->getQualifiedNameAsString());
		J.attribute("uq", uqName(fd));
		J.attribute("n", fd->getDeclName().getAsString());
		J.attribute("did", declId(fd));
		J.attribute("kind", fnKind(fd));
		auto ta = fnTArgs(fd);
		if(!ta.empty()) J.attribute("targs", ta);
		if(auto *md = dyn_cast<CXXMethodDecl>(fd)) {
			J.attribute("cls", uqName(md->getParent()));
			J.attribute("clsqn", recQn(md->getParent()));
			if(md->isStatic()) J.attribute("static", true);
			if(md->isConst()) J.attribute("const", true);
		}
		if(auto *cd = dyn_cast<CXXConstructorDecl>(fd)) {
			if(cd->isCopyConstructor()) J.attribute("copy", true);
			if(cd->isMoveConstructor()) J.attribute("move", true);
			if(cd->isDefaultConstructor()) J.attribute("default", true);
		}
		if(auto *md = dyn_cast<CXXMethodDecl>(fd)) {
			if(md->isCopyAssignmentOperator()) J.attribute("copyassign", true);
			if(md->isMoveAssignmentOperator()) J.attribute("moveassign", true);
		}
		if(fd->isOverloadedOperator())
			J.attribute("op", getOperatorSpelling(fd->getOverloadedOperator()));
		if(unsigned b = fd->getBuiltinID())
			J.attribute("builtin", ctx.BuiltinInfo.getName(b));
		if(fd->isNoReturn()) J.attribute("noreturn", true);
		if(fd->isDeleted()) J.attribute("deleted", true);
		if(fd->isImplicit()) J.attribute("implicit", true);
		if(fd->isTrivial()) J.attribute("trivial", true);
		J.attribute("hasbody", fd->hasBody());
		J.attribute("inroot", underRoot(fd->getLocation()));
		std::vector<std::string> pts;
		J.attributeBegin("ptypes");
		J.arrayBegin();
		for(auto *p : fd->parameters())
			J.value(typeStr(p->getType()));
		J.arrayEnd();
		J.attributeEnd();
		J.objectEnd();
		J.attributeEnd();
	}

	// ---------------------------------------------------------------- nodes
	struct FnState {
		std::map<const Stmt *, int> ids;
		std::vector<const Stmt *> order;
		std::map<const VarDecl *, int> locals;
	};

	int nodeId(FnState &fs, const Stmt *s) {
		auto it = fs.ids.find(s);
		if(it != fs.ids.end()) return it->second;
		int id = fs.order.size();
		fs.ids[s] = id;
		fs.order.push_back(s);
		return id;
	}

	void collect(FnState &fs, const Stmt *s) {
		if(!s) return;
		if(fs.ids.count(s)) return;
		nodeId(fs, s);
		if(auto *da = dyn_cast<CXXDefaultArgExpr>(s)) {
			collect(fs, da->getExpr());
			return;
		}
		if(auto *di = dyn_cast<CXXDefaultInitExpr>(s)) {
			collect(fs, di->getExpr());
			return;
		}
		if(auto *le = dyn_cast<LambdaExpr>(s)) {
			for(auto *ci : le->capture_inits())
				collect(fs, ci);
			return;
		}
		if(auto *ds = dyn_cast<DeclStmt>(s)) {
			for(auto *d : ds->decls())
				if(auto *vd = dyn_cast<VarDecl>(d))
					fs.locals[vd] = declId(vd);
		}
		for(const Stmt *c : s->children())
			collect(fs, c);
	}

	void emitIntAttr(const char *key, const llvm::APSInt &v) {
		J.attribute(key, llvm::toString(v, 10));
	}

	void emitNode(FnState &fs, const Stmt *s, int id) {
		J.objectBegin();
		J.attribute("i", id);
		J.attribute("k", s->getStmtClassName());
		J.attribute("l", locStr(s->getBeginLoc()));
		if(s->getBeginLoc().isMacroID()) {
			auto mn = Lexer::getImmediateMacroName(s->getBeginLoc(), sm, ctx.getLangOpts());
			if(!mn.empty()) J.attribute("mac", mn);
		}
		// children
		J.attributeBegin("c");
		J.arrayBegin();
		if(auto *da = dyn_cast<CXXDefaultArgExpr>(s)) {
			J.value(fs.ids[da->getExpr()]);
		}else if(auto *di = dyn_cast<CXXDefaultInitExpr>(s)) {
			J.value(fs.ids[di->getExpr()]);
		}else if(auto *le = dyn_cast<LambdaExpr>(s)) {
			for(auto *ci : le->capture_inits())
				if(ci) J.value(fs.ids[ci]);
		}else{
			for(const Stmt *c : s->children())
				if(c) J.value(fs.ids[c]); else J.value(nullptr);
		}
		J.arrayEnd();
		J.attributeEnd();

		if(auto *e = dyn_cast<Expr>(s)) {
			J.attribute("t", typeStr(e->getType()));
			auto rt = recordUq(e->getType());
			if(!rt.empty()) J.attribute("rt", rt);
			auto prt = pointeeRecordUq(e->getType());
			if(!prt.empty()) J.attribute("prt", prt);
			if(e->isLValue()) J.attribute("lv", true);
			if(!e->getType().isNull() && e->getType()->isIntegralOrEnumerationType() && !e->getType()->isDependentType()) {
				J.attribute("bits", (int64_t)ctx.getIntWidth(e->getType()));
				J.attribute("sgn", e->getType()->isSignedIntegerOrEnumerationType());
			}
			if(!e->isValueDependent() && !e->isTypeDependent()
					&& (e->getType()->isIntegralOrEnumerationType())
					&& !e->isLValue()) {
				Expr::EvalResult r;
				if(e->EvaluateAsInt(r, ctx, Expr::SE_NoSideEffects))
					emitIntAttr("cv", r.Val.getInt());
			}else if(!e->isValueDependent() && !e->isTypeDependent()
					&& e->getType()->isIntegralOrEnumerationType() && e->isLValue()) {
				// const/constexpr variables read as lvalues
				Expr::EvalResult r;
				if(e->EvaluateAsRValue(r, ctx) && r.Val.isInt())
					emitIntAttr("cv", r.Val.getInt());
			}
			if(e->getType()->isPointerType() && !e->isValueDependent()) {
				if(e->isNullPointerConstant(ctx, Expr::NPC_ValueDependentIsNotNull))
					J.attribute("nullc", true);
			}
		}

		if(auto *dre = dyn_cast<DeclRefExpr>(s)) {
			auto *d = dre->getDecl();
			J.attribute("d", declId(d));
			J.attribute("n", d->getDeclName().getAsString());
			J.attribute("dk", d->getDeclKindName());
			if(auto *vd = dyn_cast<VarDecl>(d)) {
				if(vd->isLocalVarDeclOrParm()) J.attribute("local", true);
				else J.attribute("qn", uqName(vd));
				if(vd->isStaticDataMember()) J.attribute("sdm", true);
			}else if(auto *fd = dyn_cast<FunctionDecl>(d)) {
				J.attribute("qn", uqName(fd));
			}else if(auto *ec = dyn_cast<EnumConstantDecl>(d)) {
				J.attribute("qn", uqName(ec));
			}
		}else if(auto *me = dyn_cast<MemberExpr>(s)) {
			auto *d = me->getMemberDecl();
			J.attribute("m", d->getDeclName().getAsString());
			J.attribute("md", declId(d));
			J.attribute("mk", d->getDeclKindName());
			J.attribute("arrow", me->isArrow());
			if(auto *fd = dyn_cast<FieldDecl>(d))
				J.attribute("mc", uqName(fd->getParent()));
			else if(auto *md = dyn_cast<CXXMethodDecl>(d))
				J.attribute("mc", uqName(md->getParent()));
			else if(auto *vd = dyn_cast<VarDecl>(d))
				J.attribute("mc", uqName(cast<NamedDecl>(vd->getDeclContext())));
		}else if(auto *ce = dyn_cast<CallExpr>(s)) {
			if(auto *fd = ce->getDirectCallee())
				emitCallee(fd);
			J.attributeBegin("args");
			J.arrayBegin();
			for(auto *a : ce->arguments())
				J.value(fs.ids[a]);
			J.arrayEnd();
			J.attributeEnd();
			J.attribute("fn", fs.ids[ce->getCallee()]);
			if(auto *mce = dyn_cast<CXXMemberCallExpr>(s)) {
				if(auto *obj = mce->getImplicitObjectArgument())
					J.attribute("obj", fs.ids[obj]);
			}
		}else if(auto *ce = dyn_cast<CXXConstructExpr>(s)) {
			emitCallee(ce->getConstructor());
			J.attributeBegin("args");
			J.arrayBegin();
			for(auto *a : ce->arguments())
				J.value(fs.ids[a]);
			J.arrayEnd();
			J.attributeEnd();
			if(ce->isElidable()) J.attribute("elidable", true);
			if(ce->isListInitialization()) J.attribute("listinit", true);
		}else if(auto *ne = dyn_cast<CXXNewExpr>(s)) {
			J.attribute("alloct", typeStr(ne->getAllocatedType()));
			auto art = recordUq(ne->getAllocatedType());
			if(!art.empty()) J.attribute("allocrt", art);
			if(auto *fd = ne->getOperatorNew()) {
				J.attribute("opnew", fd->getQualifiedNameAsString());
				J.attribute("placement", ne->getNumPlacementArgs() > 0);
			}
			J.attributeBegin("pargs");
			J.arrayBegin();
			for(unsigned i = 0; i < ne->getNumPlacementArgs(); i++)
				J.value(fs.ids[ne->getPlacementArg(i)]);
			J.arrayEnd();
			J.attributeEnd();
			if(ne->getInitializer())
				J.attribute("init", fs.ids[ne->getInitializer()]);
			if(ne->isArray()) J.attribute("array", true);
		}else if(auto *de = dyn_cast<CXXDeleteExpr>(s)) {
			J.attribute("arg", fs.ids[de->getArgument()]);
			if(de->isArrayForm()) J.attribute("array", true);
		}else if(auto *pd = dyn_cast<CXXPseudoDestructorExpr>(s)) {
			J.attribute("dt", typeStr(pd->getDestroyedType()));
		}else if(auto *uo = dyn_cast<UnaryOperator>(s)) {
			J.attribute("op", UnaryOperator::getOpcodeStr(uo->getOpcode()));
			if(uo->isPostfix()) J.attribute("post", true);
		}else if(auto *bo = dyn_cast<BinaryOperator>(s)) {
			J.attribute("op", bo->getOpcodeStr());
			if(auto *ca = dyn_cast<CompoundAssignOperator>(s))
				J.attribute("compt", typeStr(ca->getComputationResultType()));
		}else if(auto *il = dyn_cast<IntegerLiteral>(s)) {
			(void)il;
		}else if(auto *cl = dyn_cast<CharacterLiteral>(s)) {
			J.attribute("ch", (int64_t)cl->getValue());
		}else if(auto *sl = dyn_cast<StringLiteral>(s)) {
			if(sl->isAscii() || sl->isUTF8()) {
				if(llvm::json::isUTF8(sl->getString()))
					J.attribute("str", sl->getString());
				else
					J.attribute("str", llvm::json::fixUTF8(sl->getString()));
			}
			J.attribute("len", (int64_t)sl->getLength());
		}else if(auto *bl = dyn_cast<CXXBoolLiteralExpr>(s)) {
			J.attribute("bv", bl->getValue());
		}else if(auto *ce = dyn_cast<CastExpr>(s)) {
			J.attribute("ck", ce->getCastKindName());
			if(auto *conv = ce->getConversionFunction())
				if(auto *fd = dyn_cast<FunctionDecl>(conv))
					J.attribute("convfn", uqName(fd));
		}else if(auto *ue = dyn_cast<UnaryExprOrTypeTraitExpr>(s)) {
			J.attribute("trait", (int)ue->getKind());
			J.attribute("argt", typeStr(ue->getTypeOfArgument()));
		}else if(auto *ae = dyn_cast<AtomicExpr>(s)) {
			J.attribute("aop", (int)ae->getOp());
			std::string nm;
			switch(ae->getOp()) {
#define BUILTIN(ID, TYPE, ATTRS)
#define ATOMIC_BUILTIN(ID, TYPE, ATTRS) case AtomicExpr::AO ## ID: nm = #ID; break;
#include "clang/Basic/Builtins.def"
			}
			J.attribute("aname", nm);
			J.attribute("ptr", fs.ids[ae->getPtr()]);
			J.attribute("order", fs.ids[ae->getOrder()]);
			if(ae->getNumSubExprs() > 2 && ae->getOp() != AtomicExpr::AO__atomic_load_n
					&& ae->getOp() != AtomicExpr::AO__c11_atomic_load)
				J.attribute("val1", fs.ids[ae->getVal1()]);
			if(ae->isCmpXChg()) {
				J.attribute("orderfail", fs.ids[ae->getOrderFail()]);
				J.attribute("val2", fs.ids[ae->getVal2()]);
			}
		}else if(auto *ds = dyn_cast<DeclStmt>(s)) {
			J.attributeBegin("decls");
			J.arrayBegin();
			for(auto *d : ds->decls()) {
				if(auto *vd = dyn_cast<VarDecl>(d)) {
					J.objectBegin();
					J.attribute("d", declId(vd));
					J.attribute("n", vd->getName());
					J.attribute("t", typeStr(vd->getType()));
					auto rt = recordUq(vd->getType());
					if(!rt.empty()) J.attribute("rt", rt);
					if(vd->getInit())
						J.attribute("init", fs.ids[vd->getInit()]);
					if(vd->isStaticLocal()) J.attribute("static", true);
					if(auto *dd = dyn_cast<DecompositionDecl>(vd)) {
						// structured bindings over a class: each binding names one data member of the hidden object
						J.attributeBegin("bindings");
						J.arrayBegin();
						for(auto *bd : dd->bindings()) {
							J.objectBegin();
							J.attribute("d", declId(bd));
							J.attribute("n", bd->getName());
							if(auto *be = bd->getBinding()) {
								const Expr *e = be->IgnoreParenImpCasts();
								if(auto *me = dyn_cast<MemberExpr>(e)) {
									J.attribute("field", me->getMemberDecl()->getName());
									J.attribute("md", declId(me->getMemberDecl()));
									if(auto *rd = dyn_cast<CXXRecordDecl>(me->getMemberDecl()->getDeclContext()))
										J.attribute("mc", uqName(rd));
								}
							}
							J.objectEnd();
						}
						J.arrayEnd();
						J.attributeEnd();
					}
					J.objectEnd();
				}
			}
			J.arrayEnd();
			J.attributeEnd();
		}else if(auto *rs = dyn_cast<ReturnStmt>(s)) {
			if(rs->getRetValue())
				J.attribute("val", fs.ids[rs->getRetValue()]);
		}else if(auto *is = dyn_cast<IfStmt>(s)) {
			J.attribute("cond", fs.ids[is->getCond()]);
			if(is->getThen()) J.attribute("then", fs.ids[is->getThen()]);
			if(is->getElse()) J.attribute("else", fs.ids[is->getElse()]);
			if(is->isConstexpr()) J.attribute("constexpr", true);
		}else if(auto *ws = dyn_cast<WhileStmt>(s)) {
			J.attribute("cond", fs.ids[ws->getCond()]);
			J.attribute("body", fs.ids[ws->getBody()]);
		}else if(auto *fs_ = dyn_cast<ForStmt>(s)) {
			if(fs_->getInit()) J.attribute("init", fs.ids[fs_->getInit()]);
			if(fs_->getCond()) J.attribute("cond", fs.ids[fs_->getCond()]);
			if(fs_->getInc()) J.attribute("inc", fs.ids[fs_->getInc()]);
			J.attribute("body", fs.ids[fs_->getBody()]);
		}else if(auto *dos = dyn_cast<DoStmt>(s)) {
			J.attribute("cond", fs.ids[dos->getCond()]);
			J.attribute("body", fs.ids[dos->getBody()]);
		}else if(auto *sw = dyn_cast<SwitchStmt>(s)) {
			J.attribute("cond", fs.ids[sw->getCond()]);
			J.attribute("allenum", sw->isAllEnumCasesCovered());
		}else if(auto *cs = dyn_cast<CaseStmt>(s)) {
			Expr::EvalResult r;
			if(cs->getLHS() && cs->getLHS()->EvaluateAsInt(r, ctx))
				emitIntAttr("casev", r.Val.getInt());
			if(cs->getRHS() && cs->getRHS()->EvaluateAsInt(r, ctx))
				emitIntAttr("casehi", r.Val.getInt());
			if(cs->getSubStmt()) J.attribute("sub", fs.ids[cs->getSubStmt()]);
		}else if(auto *le = dyn_cast<LambdaExpr>(s)) {
			if(auto *co = le->getCallOperator())
				J.attribute("lambdafn", declId(co));
		}else if(auto *co = dyn_cast<ConditionalOperator>(s)) {
			J.attribute("cond", fs.ids[co->getCond()]);
			J.attribute("tv", fs.ids[co->getTrueExpr()]);
			J.attribute("fv", fs.ids[co->getFalseExpr()]);
		}else if(auto *ile = dyn_cast<InitListExpr>(s)) {
			(void)ile;
		}else if(auto *so = dyn_cast<SizeOfPackExpr>(s)) {
			(void)so;
		}
		J.objectEnd();
	}

	// ---------------------------------------------------------------- functions
	void processFunction(const FunctionDecl *fd) {
		if(!fd->doesThisDeclarationHaveABody()) return;
		if(fd->isDependentContext()) return;
		if(fd->isDeleted() || fd->isDefaulted()) return;
		// functions of the library under analysis, plus explicit probes of the witness unit (wit::probe_*): bodies whose
		// resolved callees are themselves the evidence (overload-resolution witnesses)
		if(!underRoot(fd->getLocation())
				&& fd->getQualifiedNameAsString().rfind("wit::probe_", 0) != 0
				&& fd->getQualifiedNameAsString().rfind("wit::SelfInitProbe", 0) != 0)
			return;
		if(!doneFns.insert(fd->getCanonicalDecl()).second) return;
		const Stmt *body = fd->getBody();
		if(!body) return;

		FnState fs;
		collect(fs, body);
		if(auto *cd = dyn_cast<CXXConstructorDecl>(fd))
			for(auto *ci : cd->inits())
				collect(fs, ci->getInit());

		CFG::BuildOptions bo;
		bo.setAllAlwaysAdd();
		bo.AddImplicitDtors = true;
		bo.AddTemporaryDtors = true;
		bo.AddInitializers = true;
		bo.AddEHEdges = false;
		bo.PruneTriviallyFalseEdges = true;
		auto cfg = CFG::buildCFG(fd, const_cast<Stmt *>(body), &ctx, bo);

		nFunctions++;
		J.objectBegin();
		J.attribute("qn", fd->getQualifiedNameAsString());
		J.attribute("uq", uqName(fd));
		J.attribute("name", fd->getDeclName().getAsString());
		J.attribute("did", declId(fd));
		J.attribute("kind", fnKind(fd));
		J.attribute("loc", locStr(fd->getLocation()));
		J.attribute("endloc", locStr(fd->getEndLoc()));
		J.attribute("ret", typeStr(fd->getReturnType()));
		auto ta = fnTArgs(fd);
		if(!ta.empty()) J.attribute("targs", ta);
		if(auto *md = dyn_cast<CXXMethodDecl>(fd)) {
			J.attribute("cls", uqName(md->getParent()));
			J.attribute("clsqn", recQn(md->getParent()));
			J.attribute("clsdid", declId(md->getParent()));
			if(md->isStatic()) J.attribute("static", true);
			if(md->isConst()) J.attribute("const", true);
			if(md->isCopyAssignmentOperator()) J.attribute("copyassign", true);
			if(md->isMoveAssignmentOperator()) J.attribute("moveassign", true);
			if(md->getParent()->isLambda()) J.attribute("lambda", true);
		}
		if(auto *cd = dyn_cast<CXXConstructorDecl>(fd)) {
			if(cd->isCopyConstructor()) J.attribute("copy", true);
			if(cd->isMoveConstructor()) J.attribute("move", true);
			if(cd->isDefaultConstructor()) J.attribute("default", true);
			if(cd->isDelegatingConstructor()) J.attribute("delegating", true);
		}
		if(fd->isOverloadedOperator())
			J.attribute("op", getOperatorSpelling(fd->getOverloadedOperator()));
		if(fd->getFriendObjectKind() != Decl::FOK_None || fd->getLexicalDeclContext() != fd->getDeclContext()) {
			if(auto *lrd = dyn_cast<CXXRecordDecl>(fd->getLexicalDeclContext())) {
				J.attribute("lexcls", uqName(lrd));
				J.attribute("lexclsqn", recQn(lrd));
			}
		}
		if(fd->isConstexpr()) J.attribute("constexpr", true);
		if(fd->isNoReturn()) J.attribute("noreturn", true);
		if(fd->isVariadic()) J.attribute("variadic", true);
		if(fd->hasAttrs()) {
			// contracts stated to the optimiser (returns_nonnull, malloc, pure, ...): the rules hold them against the body
			J.attributeBegin("attrs");
			J.arrayBegin();
			for(auto *a : fd->attrs())
				J.value(a->getSpelling());
			J.arrayEnd();
			J.attributeEnd();
		}
		switch(fd->getAccess()) {
		case AS_public: J.attribute("access", "public"); break;
		case AS_protected: J.attribute("access", "protected"); break;
		case AS_private: J.attribute("access", "private"); break;
		default: break;
		}

		J.attributeBegin("params");
		J.arrayBegin();
		for(auto *p : fd->parameters()) {
			J.objectBegin();
			J.attribute("d", declId(p));
			J.attribute("n", p->getName());
			J.attribute("t", typeStr(p->getType()));
			auto rt = recordUq(p->getType());
			if(!rt.empty()) J.attribute("rt", rt);
			// Declared in the template pattern as `X &&` with X a template type parameter (a forwarding /
			// reference-collapsing parameter)?  Instantiated parameters keep the pattern parameter's location.
			if(const FunctionDecl *pat = fd->getTemplateInstantiationPattern()) {
				// (an out-of-line definition is the pattern of the body, the in-class declaration the pattern of the
				// parameters: look at every redeclaration)
				for(auto *rd : pat->redecls())
				for(auto *pp : rd->parameters()) {
					if(pp->getLocation() != p->getLocation()) continue;
					QualType pt = pp->getType();
					if(auto *pe = pt->getAs<PackExpansionType>()) pt = pe->getPattern();
					if(auto *rr = pt->getAs<RValueReferenceType>()) {
						QualType inner = rr->getPointeeType();
						if(!inner.hasQualifiers() && inner->getAs<TemplateTypeParmType>())
							J.attribute("collapsing", true);
					}
				}
			}
			J.objectEnd();
		}
		J.arrayEnd();
		J.attributeEnd();

		// CFG first (it may reference synthetic nodes we append to the table).
		struct Synth { int id; std::function<void()> emit; };
		std::vector<Synth> synth;
		int nextId = fs.order.size();

		struct BlockOut {
			unsigned id;
			std::vector<int> elems;
			int term = -1;
			int termcond = -1;
			std::string termkind;
			std::vector<int> succs; // -1 for null
			std::vector<bool> reach;
			bool noret = false;
			int label = -1;
		};
		std::vector<BlockOut> blocks;
		bool cfgOk = (bool)cfg;
		if(cfg) {
			for(const CFGBlock *b : *cfg) {
				BlockOut o;
				o.id = b->getBlockID();
				o.noret = b->hasNoReturnElement();
				for(const CFGElement &el : *b) {
					if(auto st = el.getAs<CFGStmt>()) {
						const Stmt *s = st->getStmt();
						if(!fs.ids.count(s)) collect(fs, s), nextId = fs.order.size();
						o.elems.push_back(fs.ids[s]);
					}else if(auto in = el.getAs<CFGInitializer>()) {
						const CXXCtorInitializer *ci = in->getInitializer();
						int id = -1;
						// allocate later (ids must not collide with nodes collected lazily)
						synth.push_back({id, [this, ci, &fs]() {
							J.attribute("k", "CtorInit");
							J.attribute("l", locStr(ci->getSourceLocation()));
							if(ci->isAnyMemberInitializer()) {
								J.attribute("field", ci->getAnyMember()->getName());
								J.attribute("fieldcls", uqName(ci->getAnyMember()->getParent()));
								J.attribute("md", declId(ci->getAnyMember()));
							}else if(ci->isDelegatingInitializer()) {
								J.attribute("delegating", true);
							}else if(ci->isBaseInitializer()) {
								J.attribute("base", recordUq(QualType(ci->getBaseClass(), 0)));
							}
							if(!ci->isWritten()) J.attribute("implicit", true);
							if(ci->getInit() && fs.ids.count(ci->getInit()))
								J.attribute("init", fs.ids[ci->getInit()]);
						}});
						o.elems.push_back(-(int)synth.size()); // placeholder
					}else if(auto ad = el.getAs<CFGAutomaticObjDtor>()) {
						const VarDecl *vd = ad->getVarDecl();
						const CXXDestructorDecl *dd = ad->getDestructorDecl(ctx);
						synth.push_back({-1, [this, vd, dd]() {
							J.attribute("k", "AutoDtor");
							J.attribute("l", locStr(vd->getLocation()));
							J.attribute("d", declId(vd));
							J.attribute("n", vd->getName());
							J.attribute("t", typeStr(vd->getType()));
							auto rt = recordUq(vd->getType());
							if(!rt.empty()) J.attribute("rt", rt);
							if(dd) emitCallee(dd);
						}});
						o.elems.push_back(-(int)synth.size());
					}else if(auto td = el.getAs<CFGTemporaryDtor>()) {
						const CXXBindTemporaryExpr *bte = td->getBindTemporaryExpr();
						const CXXDestructorDecl *dd = td->getDestructorDecl(ctx);
						synth.push_back({-1, [this, bte, dd, &fs]() {
							J.attribute("k", "TempDtor");
							J.attribute("l", locStr(bte->getBeginLoc()));
							if(fs.ids.count(bte)) J.attribute("expr", fs.ids[bte]);
							J.attribute("t", typeStr(bte->getType()));
							auto rt = recordUq(bte->getType());
							if(!rt.empty()) J.attribute("rt", rt);
							if(dd) emitCallee(dd);
						}});
						o.elems.push_back(-(int)synth.size());
					}else if(auto mdt = el.getAs<CFGMemberDtor>()) {
						const FieldDecl *f = mdt->getFieldDecl();
						const CXXDestructorDecl *dd = mdt->getDestructorDecl(ctx);
						synth.push_back({-1, [this, f, dd]() {
							J.attribute("k", "MemberDtor");
							J.attribute("l", locStr(f->getLocation()));
							J.attribute("field", f->getName());
							J.attribute("md", declId(f));
							auto rt = recordUq(f->getType());
							if(!rt.empty()) J.attribute("rt", rt);
							if(dd) emitCallee(dd);
						}});
						o.elems.push_back(-(int)synth.size());
					}else if(auto bd = el.getAs<CFGBaseDtor>()) {
						const CXXBaseSpecifier *bs = bd->getBaseSpecifier();
						const CXXDestructorDecl *dd = bd->getDestructorDecl(ctx);
						synth.push_back({-1, [this, bs, dd]() {
							J.attribute("k", "BaseDtor");
							J.attribute("base", recordUq(bs->getType()));
							if(dd) emitCallee(dd);
						}});
						o.elems.push_back(-(int)synth.size());
					}else if(auto dd_ = el.getAs<CFGDeleteDtor>()) {
						(void)dd_;
					}
				}
				if(const Stmt *t = b->getTerminatorStmt()) {
					if(!fs.ids.count(t)) collect(fs, t);
					o.term = fs.ids[t];
					o.termkind = t->getStmtClassName();
					if(b->getTerminator().isTemporaryDtorsBranch())
						o.termkind = "TempDtorBranch";
				}
				if(const Stmt *tc = b->getTerminatorCondition(false)) {
					if(!fs.ids.count(tc)) collect(fs, tc);
					o.termcond = fs.ids[tc];
				}
				if(const Stmt *lb = b->getLabel()) {
					if(!fs.ids.count(lb)) collect(fs, lb);
					o.label = fs.ids[lb];
				}
				for(auto si = b->succ_begin(); si != b->succ_end(); ++si) {
					const CFGBlock *sb = si->getReachableBlock();
					if(sb) {
						o.succs.push_back(sb->getBlockID());
						o.reach.push_back(true);
					}else if(const CFGBlock *ub = si->getPossiblyUnreachableBlock()) {
						o.succs.push_back(ub->getBlockID());
						o.reach.push_back(false);
					}else{
						o.succs.push_back(-1);
						o.reach.push_back(false);
					}
				}
				blocks.push_back(std::move(o));
			}
		}
		// assign synthetic ids after all real nodes are known
		nextId = fs.order.size();
		for(auto &s : synth)
			s.id = nextId++;

		J.attributeBegin("nodes");
		J.arrayBegin();
		for(size_t i = 0; i < fs.order.size(); i++)
			emitNode(fs, fs.order[i], i);
		for(auto &s : synth) {
			J.objectBegin();
			J.attribute("i", s.id);
			J.attribute("synthetic", true);
			s.emit();
			J.objectEnd();
		}
		J.arrayEnd();
		J.attributeEnd();

		J.attribute("body", fs.ids[body]);
		J.attribute("cfgok", cfgOk);
		if(cfg) {
			J.attribute("entry", (int64_t)cfg->getEntry().getBlockID());
			J.attribute("exit", (int64_t)cfg->getExit().getBlockID());
		}
		J.attributeBegin("blocks");
		J.arrayBegin();
		for(auto &o : blocks) {
			J.objectBegin();
			J.attribute("id", (int64_t)o.id);
			J.attributeBegin("elems");
			J.arrayBegin();
			for(int e : o.elems)
				J.value(e >= 0 ? e : synth[-e - 1].id);
			J.arrayEnd();
			J.attributeEnd();
			if(o.term >= 0) {
				J.attribute("term", o.term);
				J.attribute("termkind", o.termkind);
			}
			if(o.termcond >= 0) J.attribute("cond", o.termcond);
			if(o.label >= 0) J.attribute("label", o.label);
			if(o.noret) J.attribute("noret", true);
			J.attributeBegin("succs");
			J.arrayBegin();
			for(size_t i = 0; i < o.succs.size(); i++) {
				J.objectBegin();
				J.attribute("b", o.succs[i]);
				J.attribute("reach", (bool)o.reach[i]);
				J.objectEnd();
			}
			J.arrayEnd();
			J.attributeEnd();
			J.objectEnd();
		}
		J.arrayEnd();
		J.attributeEnd();
		J.objectEnd();
	}

	bool VisitFunctionDecl(FunctionDecl *fd) {
		if(fd->isThisDeclarationADefinition())
			pending.push_back(fd);
		return true;
	}
	bool VisitLambdaExpr(LambdaExpr *le) {
		if(auto *co = le->getCallOperator())
			if(co->isThisDeclarationADefinition())
				pending.push_back(co);
		// generic lambda: the call operator is a template; its instantiations are the functions that run
		if(le->isGenericLambda())
			if(auto *ft = le->getDependentCallOperator())
				for(auto *sp : ft->specializations())
					if(sp->isThisDeclarationADefinition() && doneGeneric.insert(sp->getCanonicalDecl()).second)
						pending.push_back(sp);
		return true;
	}
	std::set<const Decl *> doneGeneric;
	bool VisitCXXRecordDecl(CXXRecordDecl *rd) {
		if(rd->isThisDeclarationADefinition() && rd->isCompleteDefinition()
				&& !rd->isDependentContext() && underRoot(patternLoc(rd))
				&& doneRecs.insert(rd->getCanonicalDecl()).second)
			records.push_back(rd);
		return true;
	}
	std::vector<const FunctionDecl *> pending;
	std::vector<const StaticAssertDecl *> sasserts;
	bool VisitStaticAssertDecl(StaticAssertDecl *d) {
		if(sm.isInMainFile(sm.getExpansionLoc(d->getLocation())) && !d->getAssertExpr()->isValueDependent())
			sasserts.push_back(d);
		return true;
	}

	void emitRecord(const CXXRecordDecl *rd) {
		J.objectBegin();
		J.attribute("qn", recQn(rd));
		J.attribute("uq", uqName(rd));
		J.attribute("did", declId(rd));
		J.attribute("loc", locStr(patternLoc(rd)));
		J.attribute("t", typeStr(ctx.getRecordType(rd)));
		if(rd->isLambda()) J.attribute("lambda", true);
		if(rd->isUnion()) J.attribute("union", true);
		if(rd->isCompleteDefinition() && !rd->isDependentType() && !rd->isInvalidDecl()) {
			// object size in bytes (rules compare it with the room a placement-new is given)
			const ASTRecordLayout &lay = ctx.getASTRecordLayout(rd);
			J.attribute("size", (int64_t)lay.getSize().getQuantity());
		}
		J.attributeBegin("bases");
		J.arrayBegin();
		for(auto &b : rd->bases())
			J.value(recordUq(b.getType()));
		J.arrayEnd();
		J.attributeEnd();
		J.attributeBegin("fields");
		J.arrayBegin();
		for(auto *f : rd->fields()) {
			J.objectBegin();
			J.attribute("n", f->getName());
			J.attribute("t", typeStr(f->getType()));
			J.attribute("md", declId(f));
			auto rt = recordUq(f->getType());
			if(!rt.empty()) J.attribute("rt", rt);
			if(auto *cat = ctx.getAsConstantArrayType(f->getType())) {
				J.attribute("extent", llvm::toString(cat->getSize(), 10, false));
				J.attribute("elemt", typeStr(cat->getElementType()));
			}
			if(f->getType().isConstQualified()) J.attribute("const", true);
			if(f->getType()->isPointerType()) J.attribute("ptr", true);
			if(f->hasInClassInitializer()) J.attribute("dmi", true);
			if(f->isBitField()) J.attribute("bitw", (int64_t)f->getBitWidthValue(ctx));
			if(f->getType()->isIntegerType()) {
				J.attribute("bits", (int64_t)ctx.getIntWidth(f->getType()));
				J.attribute("sgn", f->getType()->isSignedIntegerType());
			}
			J.objectEnd();
		}
		J.arrayEnd();
		J.attributeEnd();
		J.attributeBegin("methods");
		J.arrayBegin();
		for(auto *d : rd->decls()) {
			const FunctionDecl *fd = nullptr;
			bool isFriend = false;
			if(auto *md = dyn_cast<CXXMethodDecl>(d)) fd = md;
			else if(auto *fr = dyn_cast<FriendDecl>(d)) {
				if(auto *nd = fr->getFriendDecl())
					fd = dyn_cast<FunctionDecl>(nd), isFriend = true;
			}
			if(!fd) continue;
			J.objectBegin();
			J.attribute("n", fd->getDeclName().getAsString());
			J.attribute("uq", uqName(fd));
			J.attribute("did", declId(fd));
			J.attribute("kind", fnKind(fd));
			if(isFriend) J.attribute("friend", true);
			if(fd->isDeleted()) J.attribute("deleted", true);
			if(fd->isDefaulted()) J.attribute("defaulted", true);
			if(fd->isImplicit()) J.attribute("implicit", true);
			if(auto *md = dyn_cast<CXXMethodDecl>(fd)) {
				if(md->isUserProvided()) J.attribute("userprovided", true);
				if(md->isCopyAssignmentOperator()) J.attribute("copyassign", true);
				if(md->isMoveAssignmentOperator()) J.attribute("moveassign", true);
			}
			if(auto *cd = dyn_cast<CXXConstructorDecl>(fd)) {
				if(cd->isCopyConstructor()) J.attribute("copy", true);
				if(cd->isMoveConstructor()) J.attribute("move", true);
				if(cd->isDefaultConstructor()) J.attribute("default", true);
			}
			J.attribute("hasbody", fd->hasBody());
			J.attribute("loc", locStr(fd->getLocation()));
			J.objectEnd();
		}
		J.arrayEnd();
		J.attributeEnd();
		// Summary of special members as the compiler sees them.
		J.attributeBegin("special");
		J.objectBegin();
		J.attribute("has_user_dtor", rd->hasUserDeclaredDestructor());
		J.attribute("has_user_copy_ctor", rd->hasUserDeclaredCopyConstructor());
		J.attribute("has_user_copy_assign", rd->hasUserDeclaredCopyAssignment());
		J.attribute("has_user_move_ctor", rd->hasUserDeclaredMoveConstructor());
		J.attribute("has_user_move_assign", rd->hasUserDeclaredMoveAssignment());
		J.attribute("trivial_dtor", rd->hasTrivialDestructor());
		J.attribute("copy_ctor_deleted", rd->defaultedCopyConstructorIsDeleted());
		J.attribute("simple_copy_ctor", rd->hasSimpleCopyConstructor());
		J.attribute("simple_copy_assign", rd->hasSimpleCopyAssignment());
		J.objectEnd();
		J.attributeEnd();
		J.objectEnd();
	}
};

struct Consumer : ASTConsumer {
	void HandleTranslationUnit(ASTContext &ctx) override {
		std::error_code ec;
		llvm::raw_fd_ostream os(gOut, ec);
		if(ec) {
			llvm::errs() << "frgx: cannot open " << gOut << ": " << ec.message() << "\n";
			return;
		}
		llvm::json::OStream J(os, 0);
		Extractor ex(ctx, J);
		ex.TraverseDecl(ctx.getTranslationUnitDecl());
		J.objectBegin();
		J.attribute("root", gRoot);
		J.attributeBegin("functions");
		J.arrayBegin();
		// processing may discover lambdas; pending is filled by traversal only
		for(size_t i = 0; i < ex.pending.size(); i++)
			ex.processFunction(ex.pending[i]);
		J.arrayEnd();
		J.attributeEnd();
		J.attributeBegin("records");
		J.arrayBegin();
		for(auto *rd : ex.records)
			ex.emitRecord(rd);
		J.arrayEnd();
		J.attributeEnd();
		J.attributeBegin("static_asserts");
		J.arrayBegin();
		for(auto *d : ex.sasserts) {
			J.objectBegin();
			J.attribute("loc", ex.locStr(d->getLocation()));
			if(auto *m = d->getMessage())
				J.attribute("msg", m->getString());
			J.attribute("failed", d->isFailed());
			bool val = false;
			bool ok = !d->isFailed() && d->getAssertExpr()->EvaluateAsBooleanCondition(val, ctx);
			J.attribute("evaluated", ok);
			J.attribute("value", ok && val);
			J.objectEnd();
		}
		J.arrayEnd();
		J.attributeEnd();
		J.attributeBegin("diagnostics");
		J.arrayBegin();
		for(auto &d : gDiags) {
			J.objectBegin();
			J.attribute("level", d.level);
			J.attribute("text", d.text);
			J.attribute("file", d.file);
			J.attribute("line", (int64_t)d.line);
			J.attribute("option", d.option);
			J.objectEnd();
		}
		J.arrayEnd();
		J.attributeEnd();
		J.attribute("errors", (int64_t)gErrors);
		J.attribute("nfunctions", (int64_t)ex.nFunctions);
		J.objectEnd();
		os << "\n";
	}
};

struct Action : ASTFrontendAction {
	std::unique_ptr<ASTConsumer> CreateASTConsumer(CompilerInstance &ci, llvm::StringRef) override {
		return std::make_unique<Consumer>();
	}
};

} // namespace

int main(int argc, const char **argv) {
	std::vector<std::string> files;
	int dd = -1;
	for(int i = 1; i < argc; i++) {
		std::string a = argv[i];
		if(a == "--") { dd = i; break; }
		if(a.rfind("--root=", 0) == 0) gRoot = a.substr(7);
		else if(a.rfind("--out=", 0) == 0) gOut = a.substr(6);
		else files.push_back(a);
	}
	if(dd < 0 || files.empty() || gOut.empty() || gRoot.empty()) {
		llvm::errs() << "usage: frgx --root=DIR --out=FILE unit.cpp -- flags\n";
		return 2;
	}
	std::vector<std::string> flags;
	for(int i = dd + 1; i < argc; i++)
		flags.push_back(argv[i]);
	tooling::FixedCompilationDatabase db(".", flags);
	tooling::ClangTool tool(db, files);
	CollectDiags diags;
	tool.setDiagnosticConsumer(&diags);
	int rc = tool.run(tooling::newFrontendActionFactory<Action>().get());
	return rc ? 1 : 0;
}
