#!/bin/sh
# MANIFEST.setup_cmd: build the extractor from files on disk (offline).
set -e
cd "$(dirname "$0")"
./frgx/build.sh
echo "setup ok"
