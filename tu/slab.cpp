// Instantiation unit: slab.hpp (+ rbtree.hpp as used by the partial tree)
#include "witness.hpp"
#include <new>
#include <string.h>
#include <frg/slab.hpp>

template class frg::slab_pool<wit::PolPlain, wit::Mutex>;
template class frg::slab_pool<wit::PolFull, wit::Mutex>;
template class frg::slab_pool<wit::PolPoisonPlain, wit::Mutex>;
template class frg::slab_allocator<wit::PolPlain, wit::Mutex>;
template class frg::slab_pool<wit::PolGeo, wit::Mutex>;
