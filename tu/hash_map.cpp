// Instantiation unit: hash_map.hpp
#include "witness.hpp"
#include <new>
#include <string.h>
#include <frg/hash_map.hpp>
#include <frg/string.hpp>

template class frg::hash_map<int, wit::Elem, frg::hash<int>, wit::Alloc>;
template wit::Elem *frg::hash_map<int, wit::Elem, frg::hash<int>, wit::Alloc>::get<int>(const int &);
template class frg::hash_map<frg::string_view, int, frg::hash<frg::string_view>, wit::Alloc>;
