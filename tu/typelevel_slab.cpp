// Type-level witness unit (rule W2) for the slab pool: static_asserts over /repo's own constexpr
// size-class functions, evaluated by the compiler's constant evaluator. Parsed only.
#include "witness.hpp"
#include <new>
#include <string.h>
#include <type_traits>
#include <utility>
#include <frg/slab.hpp>

// ---- slab size classes (C01): the repository's own constexpr functions, evaluated by the compiler
namespace wit {
template<typename Pool>
constexpr bool classes_cover_every_size() {
	for(size_t s = 1; s <= Pool::max_bucket_size; s++) {
		auto b = Pool::size_to_bucket(s);
		if(b >= size_t(Pool::num_buckets))
			return false;
		if(Pool::bucket_to_size(b) < s)
			return false;
		if(b > 0 && Pool::bucket_to_size(b - 1) >= s)
			return false;
	}
	return true;
}
template<typename Pool>
constexpr bool classes_are_powers_of_two() {
	size_t prev = 0;
	for(int b = 0; b < Pool::num_buckets; b++) {
		size_t sz = Pool::bucket_to_size(b);
		if(sz < 8 || (sz & (sz - 1)) || sz <= prev)
			return false;
		prev = sz;
	}
	return true;
}
struct PolSmall {
	static constexpr size_t slabsize = 1 << 14;
	static constexpr size_t sb_size = 1 << 14;
	static constexpr size_t pagesize = 0x1000;
	static constexpr int num_buckets = 5;
	uintptr_t map(size_t);
	void unmap(uintptr_t, size_t);
};
using PoolPlain = frg::slab_pool<PolPlain, Mutex>;
using PoolFull = frg::slab_pool<PolFull, Mutex>;
using PoolSmall = frg::slab_pool<PolSmall, Mutex>;
}
static_assert(wit::classes_cover_every_size<wit::PoolPlain>(), "slab[default policy]: for every size 1..max the class is in range, big enough and the smallest such class");
static_assert(wit::classes_cover_every_size<wit::PoolFull>(), "slab[10 buckets]: for every size 1..max the class is in range, big enough and the smallest such class");
static_assert(wit::classes_cover_every_size<wit::PoolSmall>(), "slab[5 buckets]: for every size 1..max the class is in range, big enough and the smallest such class");
static_assert(wit::classes_are_powers_of_two<wit::PoolPlain>() && wit::classes_are_powers_of_two<wit::PoolFull>() && wit::classes_are_powers_of_two<wit::PoolSmall>(), "slab: every class size is a power of two >= 8 and the classes strictly increase");
static_assert(wit::PoolPlain::max_bucket_size <= wit::PoolPlain::slabsize / 2 && wit::PoolSmall::max_bucket_size <= wit::PoolSmall::slabsize / 2, "slab: the largest class leaves room for a header and at least one object in a slab");
static_assert(std::is_const_v<decltype(wit::PoolPlain::slab_frame::index)> && std::is_const_v<decltype(wit::PoolPlain::frame::length)> && std::is_const_v<decltype(wit::PoolPlain::frame::address)> && std::is_const_v<decltype(wit::PoolPlain::frame::type)>, "slab: a frame's class index, address, length and type are const (the reported size cannot change while the block lives)");
static_assert(!std::is_copy_constructible_v<wit::PoolPlain> && !std::is_copy_assignable_v<wit::PoolPlain>, "slab: the pool is neither copy-constructible nor copy-assignable");
