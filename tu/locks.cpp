// Instantiation unit: mutex.hpp, qs.hpp, spinlock.hpp
#include "witness.hpp"
#include <frg/mutex.hpp>
#include <frg/spinlock.hpp>
#include <frg/qs.hpp>

template class frg::unique_lock<wit::Mutex>;
template class frg::shared_lock<wit::Mutex>;
template struct frg::lock_guard<wit::Mutex>;
template struct frg::qs_domain<wit::Mutex>;
template struct frg::qs_agent<wit::Mutex>;
template frg::unique_lock<wit::Mutex> frg::guard<wit::Mutex>(wit::Mutex *);
template frg::unique_lock<wit::Mutex> frg::guard<wit::Mutex>(frg::dont_lock_t, wit::Mutex *);

// The spinlocks as Mutex arguments of the guards (as the slab pool's users do).
template class frg::unique_lock<frg::ticket_spinlock>;
template class frg::unique_lock<frg::simple_spinlock>;
template struct frg::lock_guard<frg::ticket_spinlock>;

// the hidden-friend swaps, used directly (they must be analysed whether or not a member happens to call them)
namespace wit {
inline void use_lock_swaps(frg::unique_lock<Mutex> &a, frg::unique_lock<Mutex> &b,
		frg::shared_lock<Mutex> &c, frg::shared_lock<Mutex> &d) {
	swap(a, b);
	swap(c, d);
}
}
