// Instantiation unit: rcu_radixtree.hpp
#include "witness.hpp"
#include <frg/rcu_radixtree.hpp>

template struct frg::rcu_radixtree<wit::Elem, wit::Alloc>;
template frg::tuple<wit::Elem *, bool> frg::rcu_radixtree<wit::Elem, wit::Alloc>::find_or_insert<int>(uint64_t, int &&);
template wit::Elem *frg::rcu_radixtree<wit::Elem, wit::Alloc>::insert<int>(uint64_t, int &&);
