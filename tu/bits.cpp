// Instantiation unit: bitset, array, random, algorithm
#include "witness.hpp"
#include <new>
#include <frg/bitset.hpp>
#include <frg/array.hpp>
#include <frg/random.hpp>
#include <frg/algorithm.hpp>
#include <frg/utility.hpp>

#ifndef FRG_VERIF_BITS
#define FRG_VERIF_BITS 70
#endif
template class frg::bitset<FRG_VERIF_BITS>;
template frg::bitset<FRG_VERIF_BITS> frg::operator&(const frg::bitset<FRG_VERIF_BITS> &, const frg::bitset<FRG_VERIF_BITS> &) noexcept;
template frg::bitset<FRG_VERIF_BITS> frg::operator|(const frg::bitset<FRG_VERIF_BITS> &, const frg::bitset<FRG_VERIF_BITS> &);
template frg::bitset<FRG_VERIF_BITS> frg::operator^(const frg::bitset<FRG_VERIF_BITS> &, const frg::bitset<FRG_VERIF_BITS> &);
template struct frg::array<int, 3>;
template void frg::insertion_sort<int *, bool (*)(int, int)>(int *, int *, bool (*)(int, int));
namespace wit { inline void use_rng() { frg::mt19937 a; a(); a.seed(1); frg::pcg_basic32 p(1); p(); p(7); } }
namespace wit { inline auto use_concat() {
	frg::array<int, 3> a{}; frg::array<int, 2> b{}; frg::array<int, 4> c{};
	return frg::array_concat<int>(a, b, c);
} }
template const int &frg::min<int>(const int &, const int &);
template const int &frg::max<int>(const int &, const int &);
template const wit::Elem &frg::min<wit::Elem>(const wit::Elem &, const wit::Elem &);
template const wit::Elem &frg::max<wit::Elem>(const wit::Elem &, const wit::Elem &);
// equality of arrays of scalars (see tu/scalars.cpp): a byte-wise shortcut for "simple" element types would show here
namespace wit { inline bool use_array_equality(const frg::array<double, 3> &a, const frg::array<double, 3> &b,
		const frg::array<unsigned char, 4> &c, const frg::array<unsigned char, 4> &d) { return a == b && c == d; } }
