// Instantiation unit: string.hpp
#include "witness.hpp"
#include <new>
#include <string.h>
#include <frg/string.hpp>

template class frg::basic_string_view<char>;
template frg::optional<int> frg::basic_string_view<char>::to_number<int>();
template frg::optional<unsigned long> frg::basic_string_view<char>::to_number<unsigned long>();
template frg::optional<long> frg::basic_string_view<char>::to_number<long>();
template class frg::basic_string<char, wit::Alloc>;
template class frg::hash<frg::basic_string_view<char>>;
template class frg::hash<frg::basic_string<char, wit::Alloc>>;
template frg::string<wit::Alloc> frg::_to_string_impl::to_allocated_string<unsigned long, wit::Alloc>(wit::Alloc &, unsigned long, int, size_t, const char *);
#ifdef FRG_VERIF_WIDE
template class frg::basic_string_view<char16_t>;
template class frg::basic_string<char16_t, wit::Alloc>;
#endif
