// Instantiation unit: optional, expected, variant, manual_box, eternal, tuple, unique, allocation
#include "witness.hpp"
#include <new>
#include <string.h>
#include <frg/optional.hpp>
#include <frg/expected.hpp>
#include <frg/variant.hpp>
#include <frg/manual_box.hpp>
#include <frg/eternal.hpp>
#include <frg/tuple.hpp>
#include <frg/unique.hpp>
#include <frg/allocation.hpp>

namespace wit {
enum class Err { ok = 0, bad = 1 };
struct Other { Other(); Other(const Other &); Other(Other &&); ~Other(); Other &operator=(const Other &); Other &operator=(Other &&); };
struct Conv { Conv(); Conv(const Conv &); ~Conv(); operator Elem() const; };
}

template class frg::optional<wit::Elem>;
template frg::optional<wit::Elem> &frg::optional<wit::Elem>::operator=<int>(const frg::optional<int> &);
template frg::optional<wit::Elem> &frg::optional<wit::Elem>::operator=<int>(frg::optional<int> &&);
template void frg::optional<wit::Elem>::emplace<int>(int &&);
template class frg::optional<int>;

#ifndef FRG_VERIF_NO_EXPECTED_COPYASSIGN
template struct frg::expected<wit::Err, wit::Elem>;
#endif
template struct frg::expected<wit::Err, int>;
template struct frg::expected<wit::Err, void>;

template struct frg::variant<wit::Elem, wit::Other, int>;
template wit::Elem &frg::variant<wit::Elem, wit::Other, int>::get<wit::Elem>();
template void frg::variant<wit::Elem, wit::Other, int>::emplace<wit::Other>();
template frg::variant<wit::Elem, wit::Other, int>::variant(wit::Elem);

template class frg::manual_box<wit::Elem>;
template void frg::manual_box<wit::Elem>::initialize<int>(int &&);
template class frg::eternal<wit::Elem>;

template struct frg::unique_ptr<wit::Elem, wit::Alloc>;
template frg::unique_ptr<wit::Elem, wit::Alloc> frg::make_unique<wit::Elem, wit::Alloc, int>(wit::Alloc, int &&);
template struct frg::unique_memory<wit::Alloc>;
template wit::Elem *frg::construct<wit::Elem, wit::Alloc, int>(wit::Alloc &, int &&);
template wit::Elem *frg::construct_n<wit::Elem, wit::Alloc>(wit::Alloc &, size_t);
template void frg::destruct<wit::Elem, wit::Alloc>(wit::Alloc &, wit::Elem *);
template void frg::destruct_n<wit::Elem, wit::Alloc>(wit::Alloc &, wit::Elem *, size_t);

template class frg::tuple<int, wit::Elem>;
template class frg::tuple<int &, wit::Elem &>;
template class frg::tuple<int, wit::Elem, long>;
// get<> is instantiated by use (not by explicit instantiation, whose declared return type would have to match
// the header's exactly: a changed return type must show up in the type-level witnesses, not as a broken unit).
namespace wit { inline void use_tuple_get(frg::tuple<int, wit::Elem> &a, const frg::tuple<int, wit::Elem> &b,
		frg::tuple<int &, wit::Elem &> &r, frg::tuple<int, wit::Elem, long> &t) {
	(void)a.get<0>(); (void)a.get<1>(); (void)b.get<0>(); (void)b.get<1>();
	(void)r.get<0>(); (void)r.get<1>(); (void)t.get<2>();
} }
namespace wit { inline void use_tuple(frg::tuple<int, char> a, frg::tuple<long> b) {
	auto c = frg::tuple_cat(std::move(a), std::move(b));
	(void)frg::apply([](int, char, long) { return 0; }, std::move(c));
	(void)frg::make_tuple(1, 2);
} }
// Overload-resolution witnesses (rule W.copy-selects-copy): copying a NON-CONST lvalue must select the copy
// constructor, not a forwarding constructor template (which wins for T = bool and other greedily constructible T).
namespace wit { struct Greedy { Greedy(); template<typename X> Greedy(X &&); };
inline void probe_copy_select(frg::optional<bool> &ob, frg::optional<wit::Elem> &oe, frg::optional<Greedy> &og,
		frg::variant<wit::Elem, wit::Other, int> &v, frg::expected<wit::Err, wit::Elem> &ex) {
	frg::optional<bool> c1(ob); frg::optional<wit::Elem> c2(oe); frg::optional<Greedy> c3(og);
	frg::variant<wit::Elem, wit::Other, int> c4(v); frg::expected<wit::Err, wit::Elem> c5(ex);
	(void)c1; (void)c2; (void)c3; (void)c4; (void)c5;
}
// ... and the other three value categories of a same-type source: const lvalue, rvalue, const rvalue (std::move of a const
// object, a const member of an rvalue): always the copy or the move constructor, never a converting template.
inline void probe_copy_select_cv(const frg::optional<bool> &cob, frg::optional<bool> &ob, const frg::optional<Greedy> &cog,
		frg::optional<Greedy> &og, const frg::optional<wit::Elem> &coe, frg::optional<wit::Elem> &oe) {
	frg::optional<bool> b1(cob); frg::optional<bool> b2(std::move(ob)); frg::optional<bool> b3(std::move(cob));
	frg::optional<Greedy> g1(cog); frg::optional<Greedy> g2(std::move(og)); frg::optional<Greedy> g3(std::move(cog));
	frg::optional<wit::Elem> e1(coe); frg::optional<wit::Elem> e2(std::move(oe)); frg::optional<wit::Elem> e3(std::move(coe));
	(void)b1; (void)b2; (void)b3; (void)g1; (void)g2; (void)g3; (void)e1; (void)e2; (void)e3;
} }
// `o = {}` empties an optional (as for std::optional): the braces must reach an assignment from optional itself, not a
// value-assignment template whose defaulted U = T turns them into "assign a value-initialised T" (rule W.brace-assign-empties)
namespace wit { inline void probe_brace_assign(frg::optional<int> &oi, frg::optional<bool> &ob, frg::optional<wit::Elem *> &op) {
	oi = {}; ob = {}; op = {};
} }
// the forwarding constructions (rule W.emplace-direct-init) of eternal and manual_box with an argument
namespace wit { inline void use_forwarding_holders(frg::manual_box<wit::Elem> &mb) {
	static frg::eternal<wit::Elem> e(1);
	(void)e.get();
	mb.initialize(2);
} }
// lvalue uses of the tuple helpers: a reference-collapsing parameter instantiated as an lvalue reference must be
// forwarded, never std::move()d (rule R.forward-collapsed)
namespace wit { inline void use_tuple_lvalues(frg::tuple<int, char> &a, frg::tuple<long> &b, const frg::tuple<int, char> &ca) {
	auto c = frg::tuple_cat(a, b);
	auto d = frg::tuple_cat(ca, b);
	(void)frg::apply([](int, char) { return 0; }, ca);
	(void)c; (void)d;
} }
// converting move construction from a tuple of references: the referenced objects belong to somebody else
// (rule R.move-through-reference-member)
namespace wit { inline void use_tuple_ref_move(frg::tuple<wit::Elem &, int> &&r) {
	frg::tuple<wit::Elem, int> v(std::move(r));
	(void)v;
} }
// a move-only alternative: moving a variant must MOVE the held alternative (a construction that quietly copies it does not
// compile for this type -- the well-formedness rule W1 then reports the header line)
namespace wit {
struct MoveOnly { MoveOnly(); MoveOnly(MoveOnly &&); MoveOnly &operator=(MoveOnly &&); MoveOnly(const MoveOnly &) = delete; MoveOnly &operator=(const MoveOnly &) = delete; ~MoveOnly(); };
inline void use_variant_moves(frg::variant<int, MoveOnly> &a) {
	frg::variant<int, MoveOnly> b{std::move(a)};
	a = std::move(b);
}
inline void use_optional_moves(frg::optional<MoveOnly> &a) {
	frg::optional<MoveOnly> b{std::move(a)};
	a = std::move(b);
}
}
