// Instantiation unit: rbtree.hpp, interval_tree.hpp, pairing_heap.hpp
#include "witness.hpp"
#include <new>
#include <frg/rbtree.hpp>
#include <frg/interval_tree.hpp>
#include <frg/pairing_heap.hpp>
#include <frg/intrusive.hpp>

namespace wit {
struct TNode {
	int key;
	frg::rbtree_hook hook;
};
struct TLess { bool operator() (const TNode &a, const TNode &b) const; };
struct INode {
	long lo, hi;
	frg::rbtree_hook rb;
	frg::interval_hook<long> ih;
};
struct HNode {
	int prio;
	frg::pairing_heap_hook<HNode> hook;
};
struct HCmp { bool operator() (const HNode *a, const HNode *b) const; };
using ITree = frg::interval_tree<INode, long, &INode::lo, &INode::hi, &INode::rb, &INode::ih>;
struct ICallback { void operator() (INode *); };
}

template struct frg::_redblack::tree_struct<wit::TNode, &wit::TNode::hook, wit::TLess, frg::null_aggregator>;
template struct frg::_redblack::tree_crtp_struct<frg::_redblack::tree_struct<wit::TNode, &wit::TNode::hook, wit::TLess, frg::null_aggregator>, wit::TNode, &wit::TNode::hook, frg::null_aggregator>;
template struct frg::_redblack::tree_order_struct<wit::TNode, &wit::TNode::hook, frg::null_aggregator>;
template struct frg::_redblack::tree_crtp_struct<frg::_redblack::tree_order_struct<wit::TNode, &wit::TNode::hook, frg::null_aggregator>, wit::TNode, &wit::TNode::hook, frg::null_aggregator>;

template struct frg::interval_tree<wit::INode, long, &wit::INode::lo, &wit::INode::hi, &wit::INode::rb, &wit::INode::ih>;
// both query forms are instantiated by use, so that the unit reads them however they declare their bounds
namespace wit {
inline void use_overlaps(ITree &t, ICallback cb, long lb, long ub) {
	t.for_overlaps(cb, lb, ub);
	t.for_overlaps(cb, lb);
}
void (*use_overlaps_p)(ITree &, ICallback, long, long) = &use_overlaps;
}
template struct frg::_redblack::tree_crtp_struct<wit::ITree::binary_tree, wit::INode, &wit::INode::rb, wit::ITree::aggregator>;

template struct frg::_pairing::pairing_heap<wit::HNode, frg::locate_member<wit::HNode, frg::pairing_heap_hook<wit::HNode>, &wit::HNode::hook>, wit::HCmp>;
