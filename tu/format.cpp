// Instantiation unit: printf.hpp, formatting.hpp, logging.hpp, cmdline.hpp
#include "witness.hpp"
#include <new>
#include <string.h>
#include <frg/printf.hpp>
#include <frg/formatting.hpp>
#include <frg/logging.hpp>
#include <frg/cmdline.hpp>
#include <frg/span.hpp>
#include <frg/string.hpp>

namespace wit {
struct Sink {
	void append(char);
	void append(const char *);
};
struct Agent {
	frg::expected<frg::format_error> operator() (char);
	frg::expected<frg::format_error> operator() (const char *, size_t);
	frg::expected<frg::format_error> operator() (char, frg::format_options, frg::printf_size_mod);
};
struct LogSink { void operator() (const char *); };
}

template frg::expected<frg::format_error> frg::printf_format<wit::Agent>(wit::Agent, const char *, frg::va_struct *);
template void frg::do_printf_chars<wit::Sink>(wit::Sink &, char, frg::format_options, frg::printf_size_mod, frg::va_struct *);
template void frg::do_printf_ints<wit::Sink>(wit::Sink &, char, frg::format_options, frg::printf_size_mod, frg::va_struct *, frg::locale_options);
template void frg::do_printf_floats<wit::Sink>(wit::Sink &, char, frg::format_options, frg::printf_size_mod, frg::va_struct *, frg::locale_options);
template struct frg::stack_buffer_logger<wit::LogSink, 16>;

namespace wit {
inline void use_fmt(Sink &s, frg::string_view v, const frg::string<Alloc> &owned) {
	frg::format(owned, s);
	frg::format(frg::fmt("{} {1:08x}", 1, 2u), s);
	frg::format(frg::fmt("plain"), s);
	frg::format(v, s);
	frg::format(42, s);
	frg::format(-42l, s);
	frg::format("cstr", s);
	frg::format((char)1, s);             // char goes through format_integer / print_int<Sink, char>
	frg::format(frg::fmt("{} {:d}", (char)2, (char)3), s);
}
inline void use_cmdline(frg::string_view cl) {
	bool b = false; int n = 0; frg::string_view sv;
	frg::option opts[] = {
		{"flag", frg::store_true(b)},
		{"num", frg::as_number(n)},
		{"str", frg::as_string_view(sv)},
	};
	frg::parse_arguments(cl, frg::span<frg::option>(opts, 3));
}
}
