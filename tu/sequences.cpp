// Instantiation unit: vector, small_vector, dyn_array, stack, list, intrusive_list
#include "witness.hpp"
#include <new>
#include <string.h>
#include <frg/vector.hpp>
#include <frg/small_vector.hpp>
#include <frg/dyn_array.hpp>
#include <frg/stack.hpp>
#include <frg/list.hpp>
#include <frg/allocation.hpp>

template class frg::vector<wit::Elem, wit::Alloc>;
template wit::Elem &frg::vector<wit::Elem, wit::Alloc>::emplace_back<int>(int &&);
// emplace_back(v[0]) / emplace_back(std::move(v[0])): the forwarding parameter bound to an element
template wit::Elem &frg::vector<wit::Elem, wit::Alloc>::emplace_back<const wit::Elem &>(const wit::Elem &);
template wit::Elem &frg::vector<wit::Elem, wit::Alloc>::emplace_back<wit::Elem>(wit::Elem &&);
template void frg::vector<wit::Elem, wit::Alloc>::resize<>(size_t);
template void frg::vector<wit::Elem, wit::Alloc>::resize<const wit::Elem &>(size_t, const wit::Elem &);
template void frg::vector<wit::Elem, wit::Alloc>::resize<wit::Elem>(size_t, wit::Elem &&);

template class frg::small_vector<wit::Elem, 4, wit::Alloc>;
template wit::Elem &frg::small_vector<wit::Elem, 4, wit::Alloc>::emplace_back<int>(int &&);
template wit::Elem &frg::small_vector<wit::Elem, 4, wit::Alloc>::emplace_back<const wit::Elem &>(const wit::Elem &);
template wit::Elem &frg::small_vector<wit::Elem, 4, wit::Alloc>::emplace_back<wit::Elem>(wit::Elem &&);
template void frg::small_vector<wit::Elem, 4, wit::Alloc>::resize<>(size_t);
template void frg::small_vector<wit::Elem, 4, wit::Alloc>::resize<wit::Elem>(size_t, wit::Elem &&);

template class frg::dyn_array<wit::Elem, wit::Alloc>;
// construct_n with an rvalue argument (n elements from one argument pack)
template wit::Elem *frg::construct_n<wit::Elem, wit::Alloc, wit::Elem>(wit::Alloc &, size_t, wit::Elem &&);

template class frg::stack<wit::Elem, wit::Alloc>;
template void frg::stack<wit::Elem, wit::Alloc>::emplace<int>(int &&);

template struct frg::list<wit::Elem, wit::Alloc>;
template void frg::list<wit::Elem, wit::Alloc>::emplace_back<int>(int &&);

namespace wit {
struct LNode {
	frg::default_list_hook<LNode> hook;
	int v;
};
using LList = frg::intrusive_list<LNode, frg::locate_member<LNode, frg::default_list_hook<LNode>, &LNode::hook>>;
}
template struct frg::_list::intrusive_list<wit::LNode, frg::locate_member<wit::LNode, frg::default_list_hook<wit::LNode>, &wit::LNode::hook>>;

// the hidden-friend swaps, used directly (they must be analysed whether or not a member happens to call them)
namespace wit {
inline void use_swaps(frg::small_vector<Elem, 4, Alloc> &a, frg::small_vector<Elem, 4, Alloc> &b,
		frg::vector<Elem, Alloc> &c, frg::vector<Elem, Alloc> &d,
		frg::dyn_array<Elem, Alloc> &e, frg::dyn_array<Elem, Alloc> &f) {
	swap(a, b);
	swap(c, d);
	swap(e, f);
}
}
