// Witness types for the instantiation units. Declared, never defined: these
// units are parsed (-fsyntax-only) and analysed, never linked or run.
#pragma once
#include <stddef.h>
#include <stdint.h>

namespace wit {

// Element with non-trivial special members.
struct Elem {
	Elem();
	Elem(int);
	Elem(const Elem &);
	Elem(Elem &&);
	~Elem();
	Elem &operator=(const Elem &);
	Elem &operator=(Elem &&);
	bool operator==(const Elem &) const;
	bool operator<(const Elem &) const;
	int v;
};

// Allocator in the frigg sense.
struct Alloc {
	void *allocate(size_t);
	void deallocate(void *, size_t);
	void free(void *);
	void *reallocate(void *, size_t);
};

// Mutex with exclusive and shared modes.
struct Mutex {
	void lock();
	void unlock();
	void lock_shared();
	void unlock_shared();
};

} // namespace wit
