// Witness types for the instantiation units. Declared, never defined: these
// units are parsed (-fsyntax-only) and analysed, never linked or run.
#pragma once
#include <stddef.h>
#include <stdint.h>

namespace wit {

// Element with non-trivial special members.
struct Elem {
	Elem();
	Elem(int);
	Elem(const Elem &);
	Elem(Elem &&);
	~Elem();
	Elem &operator=(const Elem &);
	Elem &operator=(Elem &&);
	bool operator==(const Elem &) const;
	bool operator<(const Elem &) const;
	int v;
};

// Allocator in the frigg sense.
struct Alloc {
	void *allocate(size_t);
	void deallocate(void *, size_t);
	void free(void *);
	void *reallocate(void *, size_t);
};

// Mutex with exclusive and shared modes.
struct Mutex {
	void lock();
	void unlock();
	void lock_shared();
	void unlock_shared();
};

// PolGeo: unaligned map with slabsize != sb_size (distinguishes the two in alignment rules). Its constants are declared
// with a 32-bit unsigned type: the pool must bring them to size_t before it builds address masks from them.
struct PolGeo {
	static constexpr unsigned int slabsize = 1 << 14;
	static constexpr unsigned int sb_size = 1 << 16;
	static constexpr unsigned int pagesize = 0x1000;
	static constexpr int num_buckets = 8;
	uintptr_t map(size_t);
	void unmap(uintptr_t, size_t);
};

// Positive example for the width rules (B9.no-narrowing-store, B9.mask-width): the engine must recognise both on every run.
struct WidthProbe { unsigned int narrow; unsigned short events; };
inline void probe_width_counter(WidthProbe &p) { p.events++; }
inline void probe_width_store(WidthProbe &p, size_t v) { p.narrow = v; }
// Positive example for O.init-reads-initialised: a member initialised from itself.
struct SelfInitProbe { int a; int b; SelfInitProbe(int v) : a{a + v}, b{v} { } };
inline int probe_self_init(int v) { SelfInitProbe p(v); return p.b; }
// Positive example for Y.nonnull-contract: a declaration that promises more than the body keeps.
[[gnu::returns_nonnull]] inline void *probe_attr_nonnull(bool b, void *p) { if(b) return p; return nullptr; }
inline void probe_width_countdown(unsigned long n, int *a) { for(long i = 9; i >= n; i--) a[i] = 0; }
inline int probe_width_clz(unsigned long v) { return __builtin_clz(v); }
inline uintptr_t probe_width_mask(uintptr_t x, unsigned int a) { return x & ~(a - 1); }
// Positive examples for Y.bytewise-on-bytes: a byte search over wide characters, a byte comparison standing in for the
// equality of floating-point elements.
inline const wchar_t *probe_bytewise_search(const wchar_t *s, size_t n) { return static_cast<const wchar_t *>(__builtin_memchr(s, 0, n * sizeof(wchar_t))); }
inline bool probe_bytewise_equal(const double *a, const double *b, size_t n) { return !__builtin_memcmp(a, b, n * sizeof(double)); }

} // namespace wit

namespace wit {

// Slab policies. PolPlain: unaligned map, no poisoning, defaults for all sizes.
struct PolPlain {
	uintptr_t map(size_t);
	void unmap(uintptr_t, size_t);
};

// PolFull: aligned map, poisoning hooks, tracing, non-default geometry.
struct PolFull {
	static constexpr size_t slabsize = 1 << 16;
	static constexpr size_t sb_size = 1 << 17;
	static constexpr size_t pagesize = 0x1000;
	static constexpr int num_buckets = 10;
	uintptr_t map(size_t, size_t);
	void unmap(uintptr_t, size_t);
	void poison(void *, size_t);
	void unpoison(void *, size_t);
	void unpoison_expand(void *, size_t);
	bool enable_trace();
	void output_trace(void *, size_t);
	template<typename F> void walk_stack(F f);
};

// PolPoisonPlain: unaligned map with poisoning (the other combination of the two if-constexpr axes).
struct PolPoisonPlain {
	uintptr_t map(size_t);
	void unmap(uintptr_t, size_t);
	void poison(void *, size_t);
	void unpoison(void *, size_t);
	void unpoison_expand(void *, size_t);
};

} // namespace wit
