// Type-level witness unit (rule W2): static_asserts over /repo's types. Parsed only.
#include "witness.hpp"
#include <new>
#include <string.h>
#include <type_traits>
#include <utility>
#include <frg/tuple.hpp>
#include <frg/mutex.hpp>
#include <frg/qs.hpp>
#include <frg/array.hpp>
#include <frg/spinlock.hpp>
#include <frg/manual_box.hpp>
#include <frg/eternal.hpp>
#include <frg/optional.hpp>
#include <frg/variant.hpp>
#include <frg/small_vector.hpp>
#include <frg/utility.hpp>
#include <frg/formatting.hpp>

// ---- tuple (C17)
using T1 = frg::tuple<int, wit::Elem>;
using TR = frg::tuple<int &, wit::Elem &>;
static_assert(std::is_same_v<decltype(std::declval<T1 &>().get<0>()), int &>, "tuple: get<0> of tuple<int,Elem>& is int&");
static_assert(std::is_same_v<decltype(std::declval<T1 &>().get<1>()), wit::Elem &>, "tuple: get<1> of tuple<int,Elem>& is Elem&");
static_assert(std::is_same_v<decltype(std::declval<const T1 &>().get<1>()), const wit::Elem &>, "tuple: get<1> of const tuple is const Elem&");
static_assert(std::is_same_v<decltype(std::declval<TR &>().get<0>()), int &>, "tuple: reference member int& is preserved by get<0>");
static_assert(std::is_same_v<decltype(std::declval<const TR &>().get<1>()), wit::Elem &>, "tuple: reference member Elem& keeps pointing at the original through a const tuple");
static_assert(std::tuple_size<T1>::value == 2, "tuple: tuple_size counts the elements");
static_assert(std::is_same_v<std::tuple_element<0, T1>::type, int> && std::is_same_v<std::tuple_element<1, T1>::type, wit::Elem>, "tuple: tuple_element yields the element types in order");
static_assert(std::is_same_v<decltype(frg::tuple_cat(std::declval<frg::tuple<int, char>>(), std::declval<frg::tuple<long>>(), std::declval<frg::tuple<>>())), frg::tuple<int, char, long>>, "tuple: tuple_cat result lists the element types in argument order");
static_assert(std::is_same_v<decltype(frg::tuple_cat(std::declval<frg::tuple<int &, long &&>>(), std::declval<frg::tuple<char, const wit::Elem &>>())), frg::tuple<int &, long &&, char, const wit::Elem &>>, "tuple: tuple_cat keeps reference elements references (they go on naming the caller's objects)");
static_assert(std::is_same_v<decltype(frg::make_tuple(1, 'c')), frg::tuple<int, char>>, "tuple: make_tuple decays references");
static_assert(std::is_same_v<decltype(frg::apply(std::declval<long (*)(int, char)>(), std::declval<frg::tuple<int, char>>())), long>, "tuple: apply returns the functor's result type");
static_assert(std::is_same_v<decltype(frg::apply(std::declval<int &(*)(int, char)>(), std::declval<frg::tuple<int, char>>())), int &>, "tuple: apply returns a reference when the functor returns one (reference identity of the result)");
static_assert(std::is_same_v<decltype(frg::apply(std::declval<int &(*)(const int &, const char &)>(), std::declval<const frg::tuple<int, char> &>())), int &>, "tuple: apply on a const lvalue tuple returns a reference when the functor returns one");
// value category with which apply hands the elements of an rvalue tuple to the functor (std::apply / std::get semantics)
namespace wit { struct CatProbe { char operator()(int &) const; long operator()(int &&) const; short operator()(const int &) const; }; }
static_assert(std::is_same_v<decltype(frg::apply(wit::CatProbe{}, std::declval<frg::tuple<int &>>())), char>, "tuple: an lvalue-reference element of an rvalue tuple reaches the functor as an lvalue (it still belongs to the caller)");
static_assert(std::is_same_v<decltype(frg::apply(wit::CatProbe{}, std::declval<frg::tuple<int>>())), long>, "tuple: a by-value element of an rvalue tuple reaches the functor as an rvalue");
static_assert(std::is_same_v<decltype(frg::apply(wit::CatProbe{}, std::declval<const frg::tuple<int> &>())), short>, "tuple: an element of a const lvalue tuple reaches the functor as a const lvalue");

// ---- guards (C12)
static_assert(!std::is_copy_constructible_v<frg::unique_lock<wit::Mutex>>, "guards: unique_lock is not copy-constructible");
static_assert(!std::is_copy_constructible_v<frg::shared_lock<wit::Mutex>>, "guards: shared_lock is not copy-constructible");
static_assert(!std::is_copy_constructible_v<frg::lock_guard<wit::Mutex>> && !std::is_copy_assignable_v<frg::lock_guard<wit::Mutex>>, "guards: lock_guard is neither copy-constructible nor copy-assignable");
static_assert(std::is_move_constructible_v<frg::unique_lock<wit::Mutex>> && std::is_move_constructible_v<frg::shared_lock<wit::Mutex>>, "guards: unique_lock/shared_lock are movable");
namespace wit { struct ByteMutex { void lock(); void unlock(); void lock_shared(); void unlock_shared(); bool taken; }; }
static_assert(alignof(wit::ByteMutex) == 1 && sizeof(frg::unique_lock<wit::ByteMutex>) > sizeof(wit::ByteMutex *) && sizeof(frg::shared_lock<wit::ByteMutex>) > sizeof(wit::ByteMutex *), "guards: the guard of a byte-aligned mutex (such as simple_spinlock) has room for its ownership flag beside the mutex pointer: no bit of that pointer is free to carry it");
static_assert(!std::is_copy_constructible_v<frg::ticket_spinlock> && !std::is_copy_constructible_v<frg::simple_spinlock>, "spinlocks are not copyable");


// ---- manual_box / eternal (C17): objects of static storage duration that are initialised on first use
// A manual_box at namespace scope must be CONSTANT-initialised: initialize() may be called from another global's
// constructor, before a dynamic initialiser of the box would run -- which would then reset the engaged flag of a box that
// already holds an object. constinit makes the compiler decide it (every byte of the object must be initialised by the
// constexpr constructors of the box and of its aligned_storage).
constinit frg::manual_box<wit::Elem> wit_global_box; // WITNESS holder: a namespace-scope manual_box is constant-initialised (no dynamic initialiser can reset an engaged box)

// ---- variant storage (C17): as large as the largest alternative AND as strictly aligned as the strictest one -- which
// need not be the same alternative (a 40-byte character array next to a 16-byte-aligned vector type)
namespace wit { struct alignas(16) Strict16 { char c[16]; }; struct Big40 { char c[40]; }; struct Odd24 { long double x; char c[7]; }; }
static_assert(sizeof(frg::aligned_union<wit::Big40, wit::Strict16>) >= sizeof(wit::Big40) && alignof(frg::aligned_union<wit::Big40, wit::Strict16>) >= alignof(wit::Strict16), "storage: the storage of a union of types is as large as its largest and as aligned as its strictest member, also when these are different members");
static_assert(sizeof(frg::aligned_union<wit::Strict16, wit::Big40>) >= sizeof(wit::Big40) && alignof(frg::aligned_union<wit::Strict16, wit::Big40>) >= alignof(wit::Strict16), "storage: ... in either order of the members");
static_assert(sizeof(frg::aligned_union<char, wit::Odd24, short>) >= sizeof(wit::Odd24) && alignof(frg::aligned_union<char, wit::Odd24, short>) >= alignof(wit::Odd24), "storage: ... and for three members with the widest in the middle");

// ---- raw storage (C09, C10, C13, C16, C17): aligned_storage<Size, Align> is the memory every holder, the inline side of
// small_vector and the radix tree's entry nodes construct their objects in. It must honour the alignment it is asked for,
// whatever that is, and a union's storage must fit every member in every order.
namespace wit {
struct alignas(64) Over64 { char c[64]; };
struct alignas(128) Over128 { char c; };
template<typename... T> constexpr bool fits_all = ((sizeof(frg::aligned_union<T...>) >= sizeof(T)) && ...) && ((alignof(frg::aligned_union<T...>) >= alignof(T)) && ...);
}
static_assert(alignof(frg::aligned_storage<64, 64>) == 64 && sizeof(frg::aligned_storage<64, 64>) >= 64, "storage: aligned_storage<64, 64> is 64-aligned (an extended alignment is honoured, not clamped)");
static_assert(alignof(frg::aligned_storage<sizeof(wit::Over128), alignof(wit::Over128)>) >= alignof(wit::Over128) && alignof(frg::aligned_storage<1, 1>) == 1 && alignof(frg::aligned_storage<3, 2>) == 2, "storage: aligned_storage has exactly the requested alignment for 1, 2 and 128");
static_assert(wit::fits_all<long, char, wit::Big40> && wit::fits_all<long, wit::Big40, char> && wit::fits_all<char, long, wit::Big40> && wit::fits_all<char, wit::Big40, long> && wit::fits_all<wit::Big40, long, char> && wit::fits_all<wit::Big40, char, long>, "storage: a union's storage fits every member for all six orders of three members");
static_assert(wit::fits_all<long, char, short, wit::Strict16, wit::Odd24, char> && wit::fits_all<wit::Over64, char> && wit::fits_all<char, wit::Over64> && wit::fits_all<int>, "storage: ... for one, two and six members, over-aligned ones included");
static_assert(alignof(frg::optional<wit::Over64>) >= 64 && alignof(frg::manual_box<wit::Over64>) >= 64 && alignof(frg::variant<char, wit::Over64>) >= 64 && alignof(frg::small_vector<wit::Over64, 2, wit::Alloc>) >= 64, "storage: optional, manual_box, variant and small_vector are as aligned as an over-aligned element type");

// ---- composition (C08, C11): get<Tag>() names the functor stored in the container, it does not copy it -- a stateful
// locator or comparator must see its own updates
namespace wit { struct SmallState { int n; int operator()(int) { return n++; } }; struct ComposeTag { }; }
static_assert(std::is_same_v<decltype(frg::get<wit::ComposeTag>(std::declval<frg::composition<wit::ComposeTag, wit::SmallState> *>())), wit::SmallState &> && std::is_same_v<decltype(frg::composition<wit::ComposeTag, wit::SmallState>::get(nullptr)), wit::SmallState &>, "compose: get<Tag>(composition*) is a reference to the stored functor, also for a small trivially copyable one");

// ---- fmt() (C19): the object fmt() returns may outlive the full expression that made it (returned from a helper, kept in
// a variable): rvalue arguments are held BY VALUE, only lvalue arguments are referred to
static_assert(std::is_same_v<decltype(frg::fmt(std::declval<frg::string_view>(), 1, std::declval<wit::Elem>())), frg::detail_::fmt_impl<int, wit::Elem>>, "format: fmt() stores rvalue arguments by value (an object returned by fmt() does not refer to temporaries)");
static_assert(std::is_same_v<decltype(frg::fmt(std::declval<frg::string_view>(), std::declval<int &>())), frg::detail_::fmt_impl<int &>>, "format: fmt() refers to lvalue arguments");
