// Type-level witness unit (rule W2): static_asserts over /repo's types. Parsed only.
#include "witness.hpp"
#include <new>
#include <string.h>
#include <type_traits>
#include <utility>
#include <frg/tuple.hpp>
#include <frg/mutex.hpp>
#include <frg/qs.hpp>
#include <frg/array.hpp>
#include <frg/spinlock.hpp>
#include <frg/manual_box.hpp>
#include <frg/eternal.hpp>

// ---- tuple (C17)
using T1 = frg::tuple<int, wit::Elem>;
using TR = frg::tuple<int &, wit::Elem &>;
static_assert(std::is_same_v<decltype(std::declval<T1 &>().get<0>()), int &>, "tuple: get<0> of tuple<int,Elem>& is int&");
static_assert(std::is_same_v<decltype(std::declval<T1 &>().get<1>()), wit::Elem &>, "tuple: get<1> of tuple<int,Elem>& is Elem&");
static_assert(std::is_same_v<decltype(std::declval<const T1 &>().get<1>()), const wit::Elem &>, "tuple: get<1> of const tuple is const Elem&");
static_assert(std::is_same_v<decltype(std::declval<TR &>().get<0>()), int &>, "tuple: reference member int& is preserved by get<0>");
static_assert(std::is_same_v<decltype(std::declval<const TR &>().get<1>()), wit::Elem &>, "tuple: reference member Elem& keeps pointing at the original through a const tuple");
static_assert(std::tuple_size<T1>::value == 2, "tuple: tuple_size counts the elements");
static_assert(std::is_same_v<std::tuple_element<0, T1>::type, int> && std::is_same_v<std::tuple_element<1, T1>::type, wit::Elem>, "tuple: tuple_element yields the element types in order");
static_assert(std::is_same_v<decltype(frg::tuple_cat(std::declval<frg::tuple<int, char>>(), std::declval<frg::tuple<long>>(), std::declval<frg::tuple<>>())), frg::tuple<int, char, long>>, "tuple: tuple_cat result lists the element types in argument order");
static_assert(std::is_same_v<decltype(frg::make_tuple(1, 'c')), frg::tuple<int, char>>, "tuple: make_tuple decays references");
static_assert(std::is_same_v<decltype(frg::apply(std::declval<long (*)(int, char)>(), std::declval<frg::tuple<int, char>>())), long>, "tuple: apply returns the functor's result type");
static_assert(std::is_same_v<decltype(frg::apply(std::declval<int &(*)(int, char)>(), std::declval<frg::tuple<int, char>>())), int &>, "tuple: apply returns a reference when the functor returns one (reference identity of the result)");
static_assert(std::is_same_v<decltype(frg::apply(std::declval<int &(*)(const int &, const char &)>(), std::declval<const frg::tuple<int, char> &>())), int &>, "tuple: apply on a const lvalue tuple returns a reference when the functor returns one");
// value category with which apply hands the elements of an rvalue tuple to the functor (std::apply / std::get semantics)
namespace wit { struct CatProbe { char operator()(int &) const; long operator()(int &&) const; short operator()(const int &) const; }; }
static_assert(std::is_same_v<decltype(frg::apply(wit::CatProbe{}, std::declval<frg::tuple<int &>>())), char>, "tuple: an lvalue-reference element of an rvalue tuple reaches the functor as an lvalue (it still belongs to the caller)");
static_assert(std::is_same_v<decltype(frg::apply(wit::CatProbe{}, std::declval<frg::tuple<int>>())), long>, "tuple: a by-value element of an rvalue tuple reaches the functor as an rvalue");
static_assert(std::is_same_v<decltype(frg::apply(wit::CatProbe{}, std::declval<const frg::tuple<int> &>())), short>, "tuple: an element of a const lvalue tuple reaches the functor as a const lvalue");

// ---- guards (C12)
static_assert(!std::is_copy_constructible_v<frg::unique_lock<wit::Mutex>>, "guards: unique_lock is not copy-constructible");
static_assert(!std::is_copy_constructible_v<frg::shared_lock<wit::Mutex>>, "guards: shared_lock is not copy-constructible");
static_assert(!std::is_copy_constructible_v<frg::lock_guard<wit::Mutex>> && !std::is_copy_assignable_v<frg::lock_guard<wit::Mutex>>, "guards: lock_guard is neither copy-constructible nor copy-assignable");
static_assert(std::is_move_constructible_v<frg::unique_lock<wit::Mutex>> && std::is_move_constructible_v<frg::shared_lock<wit::Mutex>>, "guards: unique_lock/shared_lock are movable");
static_assert(!std::is_copy_constructible_v<frg::ticket_spinlock> && !std::is_copy_constructible_v<frg::simple_spinlock>, "spinlocks are not copyable");


// ---- manual_box / eternal (C17): objects of static storage duration that are initialised on first use
// A manual_box at namespace scope must be CONSTANT-initialised: initialize() may be called from another global's
// constructor, before a dynamic initialiser of the box would run -- which would then reset the engaged flag of a box that
// already holds an object. constinit makes the compiler decide it (every byte of the object must be initialised by the
// constexpr constructors of the box and of its aligned_storage).
constinit frg::manual_box<wit::Elem> wit_global_box; // WITNESS holder: a namespace-scope manual_box is constant-initialised (no dynamic initialiser can reset an engaged box)

// ---- variant storage (C17): as large as the largest alternative AND as strictly aligned as the strictest one -- which
// need not be the same alternative (a 40-byte character array next to a 16-byte-aligned vector type)
namespace wit { struct alignas(16) Strict16 { char c[16]; }; struct Big40 { char c[40]; }; struct Odd24 { long double x; char c[7]; }; }
static_assert(sizeof(frg::aligned_union<wit::Big40, wit::Strict16>) >= sizeof(wit::Big40) && alignof(frg::aligned_union<wit::Big40, wit::Strict16>) >= alignof(wit::Strict16), "holder: the storage of a union of types is as large as its largest and as aligned as its strictest member, also when these are different members");
static_assert(sizeof(frg::aligned_union<wit::Strict16, wit::Big40>) >= sizeof(wit::Big40) && alignof(frg::aligned_union<wit::Strict16, wit::Big40>) >= alignof(wit::Strict16), "holder: ... in either order of the members");
static_assert(sizeof(frg::aligned_union<char, wit::Odd24, short>) >= sizeof(wit::Odd24) && alignof(frg::aligned_union<char, wit::Odd24, short>) >= alignof(wit::Odd24), "holder: ... and for three members with the widest in the middle");
