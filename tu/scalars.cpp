// Instantiation unit: equality of sequences of scalars -- the instantiations in which an `if constexpr` shortcut for "simple"
// element types would show (floating point has values with two representations and representations that are no value).
#include "witness.hpp"
#include <new>
#include <frg/vector.hpp>
#include <frg/array.hpp>

namespace wit {
inline bool use_scalar_equality(const frg::vector<double, Alloc> &a, const frg::vector<double, Alloc> &b,
		const frg::vector<unsigned char, Alloc> &c, const frg::vector<unsigned char, Alloc> &d,
		const frg::vector<float, Alloc> &e, const frg::vector<float, Alloc> &f) {
	return a == b && a != b && c == d && e == f;
}
}
