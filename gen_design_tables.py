#!/usr/bin/env python3
"""Rewrites the generated table in DESIGN.md §8.3 (rule -> both-ways mutants) from selftest/mutants.json
and the current evidence files."""
import json, os, glob, re
V = os.path.dirname(os.path.abspath(__file__))
ms = json.load(open(os.path.join(V, "selftest", "mutants.json")))
by = {}
for m in ms:
    rules = set((m.get("rules") or {}).items()) or {(p, m.get("rule")) for p in m["props"]}
    for p, r in rules:
        by.setdefault(p, {}).setdefault(r, []).append(m["id"])
ev = {}
for f in sorted(glob.glob(os.path.join(V, "evidence", "C*.json"))):
    e = json.load(open(f)); ev[e["property_id"]] = e
lines = ["| property | rule | instances on the unchanged tree | both-ways mutants (selftest/mutants.json) that the rule reports |", "|---|---|---|---|"]
for p in sorted(ev):
    rules = ev[p]["coverage"]["rules"]
    for r in sorted(rules):
        lines.append("| %s | %s | %d | %s |" % (p, r, rules[r]["instances"], ", ".join(sorted(by.get(p, {}).get(r, []))) or "—"))
seeded = []
sd = os.path.join(V, "seeded")
if os.path.isdir(sd):
    for d in sorted(os.listdir(sd)):
        mp = os.path.join(sd, d, "meta.json")
        if os.path.exists(mp):
            m = json.load(open(mp))
            seeded.append("| %s | %s | %s | %s | %s | %s |" % (d, m.get("property"), m.get("summary", "").replace("|", "/"), m.get("verdict", ""), ", ".join(m.get("caught_by_rules", [])) or "—", ("missed at first: " + m.get("strengthening", "")) if m.get("initially_missed") else "caught as built"))
txt = "\n".join(lines)
s = open(os.path.join(V, "DESIGN.md")).read()
a, b = "<!-- BEGIN GENERATED rule-mutant table -->", "<!-- END GENERATED rule-mutant table -->"
s = s[:s.index(a) + len(a)] + "\n" + txt + "\n" + s[s.index(b):]
a2, b2 = "<!-- BEGIN GENERATED seeded table -->", "<!-- END GENERATED seeded table -->"
if a2 in s:
    t2 = "| seeded change | property | what it does | verdict | reported by | history |\n|---|---|---|---|---|---|\n" + "\n".join(seeded)
    s = s[:s.index(a2) + len(a2)] + "\n" + t2 + "\n" + s[s.index(b2):]
open(os.path.join(V, "DESIGN.md"), "w").write(s)
print("tables written:", len(lines) - 2, "rule rows,", len(seeded), "seeded rows")
