#!/bin/sh
# Rebuild /repo's test suite with no verification define and run it (hooks: none exist).
set -e
ninja -C /repo/_build >/dev/null
exec /repo/_build/tests/frigg_tests
