#!/usr/bin/env python3
"""Regenerates MANIFEST.json from frg/manifest_table.py and frg/props.py."""
import json, os, sys
sys.path.insert(0, os.path.dirname(os.path.abspath(__file__)))
from frg import props
from frg.manifest_table import CLAIMS, NOT_YET, NA

ids = [json.loads(l)["id"] for l in open(os.path.join(os.path.dirname(os.path.abspath(__file__)), "properties.jsonl"))]
checks, na = [], []
for pid in ids:
    if pid in props.PROPS and pid in CLAIMS:
        c = CLAIMS[pid]
        checks.append({
            "property_id": pid,
            "quick_cmd": "./check %s --tier quick" % pid,
            "thorough_cmd": "./check %s --tier thorough" % pid,
            "evidence_file": "/verif/evidence/%s.json" % pid,
            "replay_cmd_template": "./check %s --replay {path}" % pid,
            "engine": "frgx+frgcheck",
            "level_claimed": {"category": "other", "text": c["text"], "design_ref": c["design_ref"]},
            "level_note": c["note"],
            "technique": c["technique"],
        })
    else:
        na.append({"property_id": pid, "reason": NA.get(pid, NOT_YET)})
m = {
    "version": 1,
    "setup_cmd": "./setup.sh",
    "hooks": {
        "guard": "FRG_VERIF",
        "enable": "none: the checks parse /repo/include with clang -fsyntax-only; no hook commit exists and no define is needed",
        "baseline_off_cmd": "./baseline_off.sh",
        "source_commits": [],
        "add_only": True,
    },
    "engines": [{
        "name": "frgx+frgcheck",
        "path": "/verif/frgx/frgx.cc, /verif/frg/",
        "serves_properties": [c["property_id"] for c in checks],
        "kind_free_text": "libTooling extractor (event CFG of template instantiations) + Python rule engine "
                          "(dataflow, dominators, lockset, typestate, expression agreement); static analysis only",
    }],
    "checks": checks,
    "not_applicable": na,
    "notes": "Static analysis only. Every check decides named structural clauses (necessary conditions) of its property, "
             "not the behaviour; see DESIGN.md §3 per property. Exit 2 = analysis broken (anchor vanished / unit no longer compiles).",
}
with open(os.path.join(os.path.dirname(os.path.abspath(__file__)), "MANIFEST.json"), "w") as f:
    json.dump(m, f, indent=1)
print("claimed:", [c["property_id"] for c in checks], "n/a:", len(na))
