#!/usr/bin/env python3
"""Regenerate frg/known_functions.json = the qualified names of all functions the witness units see in the CURRENT
/repo tree (run only on the unchanged tree, after adding a witness unit / instantiation). Names are only ever added."""
import json, os, sys
HERE = os.path.dirname(os.path.abspath(__file__))
sys.path.insert(0, os.path.dirname(HERE))
os.environ["FRG_NO_INLINE"] = "1"
from frg import ir
units = [("locks", ()), ("slab", ()), ("slab", ("-DFRG_SLAB_TRACK_REGIONS",)), ("radix", ()), ("sequences", ()), ("hash_map", ()), ("string", ()),
         ("string", ("-DFRG_VERIF_WIDE",)), ("holders", ()), ("bits", ()), ("format", ()), ("trees", ()), ("typelevel", ()), ("typelevel_slab", ())]
p = os.path.join(os.path.dirname(HERE), "frg", "known_functions.json")
names = set(json.load(open(p)))
pa = os.path.join(os.path.dirname(HERE), "frg", "known_arities.json")
arities = set(json.load(open(pa))) if os.path.exists(pa) else set()
before = len(names)
for u, fl in units:
    try:
        un = ir.load_unit(u, extra_flags=fl, tag="kn" + "".join(fl))
    except Exception as e:
        print("skip", u, fl, e); continue
    for f in un.functions:
        names.add(f.uq)
        arities.add("%s/%d" % (f.uq, len(f.params())))
json.dump(sorted(names), open(p, "w"), indent=0)
json.dump(sorted(arities), open(pa, "w"), indent=0)
print("known functions: %d -> %d" % (before, len(names)))
