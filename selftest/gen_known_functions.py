#!/usr/bin/env python3
"""usage: gen_known_functions.py [--names] [--arities] [--records]   (without a flag: report only, write nothing)

CAUTION: the three lists freeze what existed WHEN THE RULES WERE WRITTEN; everything else is a "new helper" that the
inliner folds into its callers.  A repair in /repo that introduces a helper (e.g. small_vector::_relocate, the two-parameter
_ensure_capacity) must stay OUT of the lists, or the rules lose sight of it: only pass a flag right after adding a witness
instantiation on an otherwise unchanged tree, and review the diff of the json file.

Regenerate frg/known_functions.json = the qualified names of all functions the witness units see in the CURRENT
/repo tree (run only on the unchanged tree, after adding a witness unit / instantiation). Names are only ever added."""
import json, os, sys
HERE = os.path.dirname(os.path.abspath(__file__))
sys.path.insert(0, os.path.dirname(HERE))
os.environ["FRG_NO_INLINE"] = "1"
from frg import ir
units = [("locks", ()), ("slab", ()), ("slab", ("-DFRG_SLAB_TRACK_REGIONS",)), ("radix", ()), ("sequences", ()), ("hash_map", ()), ("string", ()),
         ("string", ("-DFRG_VERIF_WIDE",)), ("holders", ()), ("bits", ()), ("format", ()), ("trees", ()), ("typelevel", ()), ("typelevel_slab", ())]
p = os.path.join(os.path.dirname(HERE), "frg", "known_functions.json")
names = set(json.load(open(p)))
pa = os.path.join(os.path.dirname(HERE), "frg", "known_arities.json")
arities = set(json.load(open(pa))) if os.path.exists(pa) else set()
pr = os.path.join(os.path.dirname(HERE), "frg", "known_records.json")
recs = set(json.load(open(pr))) if os.path.exists(pr) else set()
before = len(names)
for u, fl in units:
    try:
        un = ir.load_unit(u, extra_flags=fl, tag="kn" + "".join(fl))
    except Exception as e:
        print("skip", u, fl, e); continue
    for f in un.functions:
        names.add(f.uq)
        arities.add("%s/%d" % (f.uq, len(f.params())))
    for r in un.records:
        recs.add(r["uq"])
if "--names" in sys.argv:
    json.dump(sorted(names), open(p, "w"), indent=0)
if "--arities" in sys.argv:
    json.dump(sorted(arities), open(pa, "w"), indent=0)
if "--records" in sys.argv:
    json.dump(sorted(recs), open(pr, "w"), indent=0)
print("(written: %s)" % ([f for f in ("--names", "--arities", "--records") if f in sys.argv] or "nothing, report only"))
print("known functions: %d -> %d" % (before, len(names)))
