#!/usr/bin/env python3
"""Instantiate the sub-agent prompt templates (selftest/agent_prompts/*.tmpl.txt).
usage: gen_prompts.py seed|hunt <round-tag> <outdir>      -> <outdir>/seed-<pid>.txt for all properties (worktree /tmp/wt<tag>-<pid>)
The extra paragraph of a round is read from selftest/agent_prompts/seed.extra-<tag>.txt when present."""
import json, os, sys
HERE = os.path.dirname(os.path.abspath(__file__))
V = os.path.dirname(HERE)
kind, tag, out = sys.argv[1:4]
os.makedirs(out, exist_ok=True)
tmpl = open(os.path.join(HERE, "agent_prompts", "%s.tmpl.txt" % kind)).read()
extra_p = os.path.join(HERE, "agent_prompts", "%s.extra-%s.txt" % (kind, tag))
extra = open(extra_p).read() if os.path.exists(extra_p) else ""
for l in open(os.path.join(V, "properties.jsonl")):
    p = json.loads(l)
    mechs = "\n".join("  - %s: %s" % (m["name"], m["where"]) for m in p["anchors"]["mechanism"])
    txt = tmpl.format(wt="/tmp/wt%s-%s" % (tag, p["id"]), demo="/tmp/demo%s-%s" % (tag, p["id"]), pid=p["id"], title=p["title"],
                      statement=p["statement"], files=", ".join(p["anchors"]["files"]), mechs=mechs, mech=mechs,
                      quant=p["quantifier"]["text"])
    if extra:
        txt = txt.replace("For EACH mutation deliver", "  " + extra.strip() + "\n\nFor EACH mutation deliver", 1)
    open(os.path.join(out, "%s-%s.txt" % (kind, p["id"])), "w").write(txt)
print("written", out)
