#!/usr/bin/env python3
"""Apply a unified diff (paths include/frg/...) to a scratch copy of /repo and run property checks on it.

usage: try_patch.py patch.diff [--tier quick|thorough] [C01 C02 ...]   (default: all properties)
Prints, per property, CAUGHT/quiet/BROKEN and the violated rules. Never touches /repo.
"""
import json, os, sys, shutil, subprocess, tempfile, re
from concurrent.futures import ThreadPoolExecutor
HERE = os.path.dirname(os.path.abspath(__file__))
VERIF = os.path.dirname(HERE)

def main():
    args = sys.argv[1:]
    tier = "quick"
    if "--tier" in args:
        i = args.index("--tier"); tier = args[i + 1]; del args[i:i + 2]
    patch = os.path.abspath(args[0])
    props = args[1:] or ["C%02d" % i for i in range(1, 21)]
    tmp = tempfile.mkdtemp(prefix="frg-patch-")
    try:
        shutil.copytree("/repo/include", os.path.join(tmp, "include"))
        r = subprocess.run(["patch", "-p1", "-s", "-i", patch], cwd=tmp, stdout=subprocess.PIPE, stderr=subprocess.STDOUT, text=True)
        if r.returncode != 0:
            print("PATCH DOES NOT APPLY:", r.stdout); return 3
        env = dict(os.environ, FRG_REPO=tmp, FRG_NO_EVIDENCE="1")
        def run(p):
            r = subprocess.run([os.path.join(VERIF, "check"), p, "--tier", tier], env=env, stdout=subprocess.PIPE, stderr=subprocess.STDOUT, text=True)
            return p, r.returncode, r.stdout
        caught = []
        with ThreadPoolExecutor(10) as ex:
            for p, rc, out in ex.map(run, props):
                rules = sorted(set(re.findall(r"rule (\S+) violated", out)))
                status = {0: "quiet", 1: "CAUGHT", 2: "BROKEN"}.get(rc, "rc=%d" % rc)
                if rc != 0:
                    print("%s %s %s" % (p, status, " ".join(rules)))
                    for l in out.splitlines():
                        if "violated by" in l or "ANALYSIS-BROKEN" in l:
                            print("     " + l.strip()[:300])
                if rc == 1:
                    caught.append(p)
        print("caught by: %s" % (caught or "NOTHING"))
        return 0 if caught else 1
    finally:
        shutil.rmtree(tmp, ignore_errors=True)

if __name__ == "__main__":
    sys.exit(main())
