#!/usr/bin/env python3
"""Cross test: detection must survive refactoring.  Every behaviour-preserving refactoring R (selftest/refactors/*.diff)
is applied to a scratch copy of /repo/include; on top of it every mutant M (selftest/mutants.json) whose `old` text
still occurs exactly once in the refactored file is applied; the property check(s) of M must still report a violation
(any rule: the refactoring may legitimately move the detection to a sibling rule).  Pairs whose mutant text no longer
occurs are skipped (the refactoring rewrote that very statement).

usage: run_cross.py [-k substr-of-refactoring] [-m substr-of-mutant] [-j N]
"""
import json, os, sys, shutil, subprocess, tempfile, argparse, glob
from concurrent.futures import ThreadPoolExecutor
HERE = os.path.dirname(os.path.abspath(__file__))
VERIF = os.path.dirname(HERE)

def prepare(rf):
    tmp = tempfile.mkdtemp(prefix="frg-x-")
    shutil.copytree("/repo/include", os.path.join(tmp, "include"))
    r = subprocess.run(["patch", "-p1", "-s", "-i", rf], cwd=tmp, stdout=subprocess.PIPE, stderr=subprocess.STDOUT, text=True)
    if r.returncode != 0:
        shutil.rmtree(tmp, ignore_errors=True)
        return None
    return tmp

def run_pair(args):
    rf, m, base = args
    tmp = tempfile.mkdtemp(prefix="frg-xm-")
    try:
        shutil.copytree(os.path.join(base, "include"), os.path.join(tmp, "include"))
        if m.get("patch"):
            subprocess.run(["patch", "-p1", "-s", "-F0", "-i", m["patch"]], cwd=tmp, stdout=subprocess.PIPE, stderr=subprocess.STDOUT)
        else:
            p = os.path.join(tmp, "include", "frg", m["file"])
            s = open(p).read()
            s = s.replace(m["old"], m["new"], 1)
            open(p, "w").write(s)
        env = dict(os.environ, FRG_REPO=tmp, FRG_NO_EVIDENCE="1")
        verdicts, outs = [], []
        for prop in m["props"]:
            r = subprocess.run([os.path.join(VERIF, "check"), prop, "--tier", m.get("tier", "quick")], env=env, stdout=subprocess.PIPE,
                               stderr=subprocess.STDOUT, text=True)
            verdicts.append({0: "MISSED", 1: "CAUGHT", 2: "BROKEN"}.get(r.returncode, "rc%d" % r.returncode))
            outs.append(r.stdout[-800:])
        ok = any(v == "CAUGHT" for v in verdicts)
        if not ok and any("does not compile" in o for o in outs):
            return os.path.basename(rf), m["id"], "CAUGHT", "(mutant text does not compile on the refactored tree: pair void)"
        return os.path.basename(rf), m["id"], ("CAUGHT" if ok else ",".join(verdicts)), "\n".join(outs)
    finally:
        shutil.rmtree(tmp, ignore_errors=True)

def main():
    ap = argparse.ArgumentParser()
    ap.add_argument("-k", default="")
    ap.add_argument("-m", default="")
    ap.add_argument("-j", type=int, default=14)
    a = ap.parse_args()
    ms = [m for m in json.load(open(os.path.join(HERE, "mutants.json"))) if a.m in m["id"] and not m.get("post_old") and not m.get("all")]
    if a.m == "seeded":
        ms = []
    rfs = sorted(p for p in glob.glob(os.path.join(HERE, "refactors", "*.diff")) if a.k in os.path.basename(p) and ".before-" not in p)
    bases, pairs, skipped = {}, [], 0
    for rf in rfs:
        files = set()
        for l in open(rf):
            if l.startswith("+++ b/include/frg/"):
                files.add(l.strip().split("/")[-1])
        cand = [m for m in ms if m["file"] in files]
        if not cand:
            continue
        base = prepare(rf)
        if base is None:
            print("refactoring does not apply:", rf); continue
        bases[rf] = base
        for m in cand:
            s = open(os.path.join(base, "include", "frg", m["file"])).read()
            if s.count(m["old"]) == 1:
                pairs.append((rf, m, base))
            else:
                skipped += 1
    # seeded changes (unified diffs) that still apply cleanly on top of the refactoring
    if not a.m or a.m == "seeded":
        for rf, base in list(bases.items()) + [(rf, None) for rf in rfs if rf not in bases]:
            if base is None:
                base = prepare(rf)
                if base is None:
                    continue
                bases[rf] = base
            files = {l.strip().split("/")[-1] for l in open(rf) if l.startswith("+++ b/include/frg/")}
            for sd in sorted(glob.glob(os.path.join(VERIF, "seeded", "*", "patch.diff"))):
                sfiles = {l.strip().split("/")[-1] for l in open(sd) if l.startswith("+++ b/include/frg/")}
                if not (files & sfiles):
                    continue
                r = subprocess.run(["patch", "-p1", "-s", "--dry-run", "-F0", "-i", sd], cwd=base, stdout=subprocess.PIPE, stderr=subprocess.STDOUT, text=True)
                if r.returncode != 0:
                    skipped += 1
                    continue
                meta = json.load(open(os.path.join(os.path.dirname(sd), "meta.json")))
                if meta.get("not_decided_because"):
                    continue            # a documented limit (run_seeded.py prints it as LIMIT): nothing to survive
                props = meta.get("caught_by") or [meta["property"]]
                pairs.append((rf, {"id": "seeded:" + os.path.basename(os.path.dirname(sd)), "props": props, "patch": sd, "file": None}, base))
    bad = 0
    try:
        with ThreadPoolExecutor(a.j) as ex:
            for rfn, mid, status, out in ex.map(run_pair, pairs):
                if status != "CAUGHT":
                    bad += 1
                    print("%-8s %-24s x %-40s" % (status, rfn, mid))
                    print("    " + out.replace("\n", "\n    ")[-700:])
    finally:
        for b in bases.values():
            shutil.rmtree(b, ignore_errors=True)
    print("%d (refactoring, mutant) pairs, %d skipped (mutated text rewritten by the refactoring), %d not caught" % (len(pairs), skipped, bad))
    return 1 if bad else 0

if __name__ == "__main__":
    sys.exit(main())
