#!/usr/bin/env python3
"""Every rule that any check declares must have at least one both-ways mutant in mutants.json
(a variant of /repo that still parses and must be reported under that rule)."""
import json, os, sys, glob
HERE = os.path.dirname(os.path.abspath(__file__))
VERIF = os.path.dirname(HERE)
rules = {}
for f in sorted(glob.glob(os.path.join(VERIF, "evidence", "C*.json"))):
    e = json.load(open(f))
    for r in e["coverage"].get("rules", {}):
        rules.setdefault(r, set()).add(e["property_id"])
ms = json.load(open(os.path.join(HERE, "mutants.json")))
have = {}
for m in ms:
    if m.get("rule"):
        have.setdefault(m["rule"], []).append(m["id"])
    for r in (m.get("rules") or {}).values():
        have.setdefault(r, []).append(m["id"])
for mp in glob.glob(os.path.join(VERIF, "seeded", "*", "meta.json")):
    m = json.load(open(mp))
    for r in m.get("caught_by_rules", []):
        have.setdefault(r, []).append("seeded/" + os.path.basename(os.path.dirname(mp)))
# a rule that reports an OPEN known finding on the unchanged tree is demonstrated by that finding (and its replay under
# findings/); no variant of the tree can make it "more violated"
for k in json.load(open(os.path.join(VERIF, "known_findings.json")))["findings"]:
    if k.get("status") == "open":
        have.setdefault(k["rule"], []).append("known-finding:" + k["instance"])
missing = [r for r in sorted(rules) if r not in have]
for r in sorted(rules):
    print("%-28s %-22s %d mutant(s)" % (r, ",".join(sorted(rules[r])), len(have.get(r, []))))
print("%d rules, %d without a mutant: %s" % (len(rules), len(missing), missing))
sys.exit(1 if missing else 0)
