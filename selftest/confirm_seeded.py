#!/usr/bin/env python3
"""Confirm a sub-agent's seeded change independently and, if confirmed, store it as /verif/seeded/<id>/.

usage: confirm_seeded.py <src dir with patch.diff demo.cpp run.sh note.txt> <property> <seeded id> "<one-line summary>"

In a fresh scratch worktree of /repo (under /tmp, removed afterwards):
  1. the existing test suite (tests/tests.cpp, 18 gtest cases) is built and run WITH the change: must pass;
  2. demo.cpp is built with the flags of run.sh against the UNCHANGED tree: must exit 0;
  3. the same against the CHANGED tree: must fail (non-zero exit / sanitizer report / timeout);
then the checks of /verif are run against the changed tree (selftest/try_patch.py) and the verdict recorded.
"""
import json, os, re, shutil, subprocess, sys, tempfile

def sh(cmd, cwd=None, timeout=600):
    try:
        r = subprocess.run(cmd, shell=True, cwd=cwd, stdout=subprocess.PIPE, stderr=subprocess.STDOUT, text=True, errors="replace", timeout=timeout)
        return r.returncode, r.stdout
    except subprocess.TimeoutExpired as e:
        return 124, (e.stdout or "") + "\nTIMEOUT"

def main():
    src, prop, sid, summary = sys.argv[1:5]
    V = os.path.dirname(os.path.dirname(os.path.abspath(__file__)))
    wt = tempfile.mkdtemp(prefix="frg-cf-")
    os.rmdir(wt)
    ran = []
    try:
        rc, out = sh("git -C /repo worktree add -q %s HEAD" % wt)
        assert rc == 0, out
        run_sh = open(os.path.join(src, "run.sh")).read()
        # compile flags of the demo: take the g++/clang++ line, rewrite include path and file paths
        m = re.search(r"((?:g\+\+|clang\+\+)[^\n]*(?:\\\n[^\n]*)*)", run_sh)
        comp = m.group(1).replace("\\\n", " ")
        comp = comp.split("&&")[0].strip()
        flags = [t for t in comp.split()[1:] if t.startswith("-") and not t.startswith("-I") and t != "-o"]
        flags = [t for t in flags if not t.startswith("-o")]
        cxx = comp.split()[0]
        libs = [t for t in flags if t.startswith("-l")]
        flags = [t for t in flags if not t.startswith("-l")]
        def demo(tag):
            exe = os.path.join(wt, "demo-%s.out" % tag)
            c = "%s %s -I%s/include %s -o %s %s" % (cxx, " ".join(flags), wt, os.path.join(src, "demo.cpp"), exe, " ".join(libs))
            rc, out = sh(c)
            if rc != 0:
                return ("build-failed", out[-1500:], c)
            # sanitizer options the author set on the run line of run.sh (e.g. ASAN_OPTIONS=detect_leaks=0) are kept
            envs = " ".join(sorted(set(re.findall(r"\b((?:ASAN|TSAN|UBSAN|LSAN)_OPTIONS=(?:\"[^\"]*\"|'[^']*'|\S+))", run_sh))))
            rc, out = sh("%s timeout 300 %s" % (envs, exe))
            return (rc, out[-1500:], c)
        before = demo("before")
        ran.append({"step": "demo on the unchanged tree", "cmd": before[2], "exit": before[0]})
        rc, out = sh("git apply %s" % os.path.join(os.path.abspath(src), "patch.diff"), cwd=wt)
        assert rc == 0, "patch does not apply: " + out
        rc, out = sh("g++ -std=c++20 -Iinclude tests/tests.cpp -o tests.out -lgtest -lgtest_main -lpthread && ./tests.out", cwd=wt)
        tests_ok = rc == 0 and "PASSED  ] 18 tests" in out
        ran.append({"step": "existing test suite with the change", "cmd": "g++ -std=c++20 -Iinclude tests/tests.cpp -lgtest -lgtest_main -lpthread && ./tests.out", "exit": rc,
                    "result": out.strip().splitlines()[-1] if out.strip() else ""})
        after = demo("after")
        ran.append({"step": "demo on the changed tree", "cmd": after[2], "exit": after[0], "tail": after[1][-600:]})
        confirmed = before[0] == 0 and tests_ok and after[0] not in (0, "build-failed")
        rc, out = sh("%s/selftest/try_patch.py %s" % (V, os.path.join(os.path.abspath(src), "patch.diff")))
        caught = re.findall(r"^(C\d+) CAUGHT (.*)$", out, re.M)
        ran.append({"step": "all 20 quick checks of /verif against the changed tree", "cmd": "selftest/try_patch.py patch.diff", "output": out[-1200:]})
        print("confirmed=%s tests_ok=%s demo before=%s after=%s caught=%s" % (confirmed, tests_ok, before[0], after[0], caught))
        if not confirmed:
            print(before[1][-500:]); print(after[1][-500:])
            return 1
        dst = os.path.join(V, "seeded", sid)
        os.makedirs(dst, exist_ok=True)
        for fn in ("patch.diff", "demo.cpp", "run.sh", "note.txt"):
            if os.path.exists(os.path.join(src, fn)):
                shutil.copy(os.path.join(src, fn), os.path.join(dst, fn))
        note = open(os.path.join(src, "note.txt")).read() if os.path.exists(os.path.join(src, "note.txt")) else ""
        meta = {"property": prop, "summary": summary, "needs_to_manifest": note.strip(),
                "origin": "written by a sub-agent that was given only the property text and a scratch worktree of /repo",
                "confirmed_by_me": ran, "verdict": "caught" if caught else "MISSED",
                "caught_by": [c[0] for c in caught], "caught_by_rules": sorted({r for c in caught for r in c[1].split()})}
        json.dump(meta, open(os.path.join(dst, "meta.json"), "w"), indent=1)
        return 0
    finally:
        sh("git -C /repo worktree remove --force %s" % wt)
        shutil.rmtree(wt, ignore_errors=True)

if __name__ == "__main__":
    sys.exit(main())
