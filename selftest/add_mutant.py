#!/usr/bin/env python3
"""add_mutant.py id file props(comma) rule  < old\\n=====\\nnew   — append one both-ways mutant to mutants.json."""
import json, os, sys
HERE = os.path.dirname(os.path.abspath(__file__))
mid, fil, props, rule = sys.argv[1:5]
old, new = sys.stdin.read().split("\n=====\n")
if new.endswith("\n"):
    new = new[:-1]
src = open(os.path.join("/repo/include/frg", fil)).read()
assert src.count(old) == 1, "old text occurs %d times" % src.count(old)
p = os.path.join(HERE, "mutants.json")
m = json.load(open(p))
assert all(x["id"] != mid for x in m), "duplicate id"
m.append({"id": mid, "file": fil, "old": old, "new": new, "props": props.split(","), "rule": rule})
json.dump(m, open(p, "w"), indent=1)
print("added", mid, "total", len(m))
