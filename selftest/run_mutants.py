#!/usr/bin/env python3
"""Both-ways test of the checkers: every mutant in selftest/mutants.json is applied to a scratch
copy of /repo/include (outside /repo and /verif, removed afterwards); the unit must still parse and
the named property check must report a violation naming the expected rule.

usage: run_mutants.py [-k substr] [-j N]
"""
import json, os, sys, shutil, subprocess, tempfile, argparse
from concurrent.futures import ThreadPoolExecutor
HERE = os.path.dirname(os.path.abspath(__file__))
VERIF = os.path.dirname(HERE)

def run_one(m):
    tmp = tempfile.mkdtemp(prefix="frg-mut-")
    try:
        shutil.copytree("/repo/include", os.path.join(tmp, "include"))
        p = os.path.join(tmp, "include", "frg", m["file"])
        s = open(p).read()
        if s.count(m["old"]) != m.get("count", 1):
            return m, "STALE", "pattern occurs %d times (expected %d)" % (s.count(m["old"]), m.get("count", 1))
        s = s.replace(m["old"], m["new"], 1) if not m.get("all") else s.replace(m["old"], m["new"])
        if m.get("post_old"):
            if s.count(m["post_old"]) != 1:
                return m, "STALE", "post pattern"
            s = s.replace(m["post_old"], m["post_new"], 1)
        open(p, "w").write(s)
        env = dict(os.environ, FRG_REPO=tmp, FRG_NO_EVIDENCE="1")
        res = []
        for prop in m["props"]:
            r = subprocess.run([os.path.join(VERIF, "check"), prop, "--tier", m.get("tier", "quick")], env=env, stdout=subprocess.PIPE,
                               stderr=subprocess.STDOUT, text=True)
            res.append((prop, r.returncode, r.stdout))
        verdicts = []
        for prop, rc, out in res:
            want = (m.get("rules") or {}).get(prop, m.get("rule"))
            hit = rc == 1 and (("rule " + want) in out if (want and not m.get("expect_any")) else True)
            verdicts.append("CAUGHT" if hit else ("BROKEN" if rc == 2 else "MISSED"))
        status = "CAUGHT" if all(v == "CAUGHT" for v in verdicts) else ",".join(verdicts)
        return m, status, "\n".join(o for _, _, o in res)
    finally:
        shutil.rmtree(tmp, ignore_errors=True)

def main():
    ap = argparse.ArgumentParser()
    ap.add_argument("-k", default="")
    ap.add_argument("-j", type=int, default=12)
    ap.add_argument("-v", action="store_true")
    a = ap.parse_args()
    ms = json.load(open(os.path.join(HERE, "mutants.json")))
    ms = [m for m in ms if a.k in m["id"] or a.k in m["props"]]
    bad = 0
    with ThreadPoolExecutor(a.j) as ex:
        for m, status, out in ex.map(run_one, ms):
            print("%-8s %-40s %s %s" % (status, m["id"], ",".join(m["props"]), m.get("rule", "")))
            if status != "CAUGHT":
                bad += 1
                print("    " + out.replace("\n", "\n    ")[-1500:])
            elif a.v:
                print("    " + out.replace("\n", "\n    ")[-600:])
    print("%d mutants, %d not caught" % (len(ms), bad))
    return 1 if bad else 0

if __name__ == "__main__":
    sys.exit(main())
