#!/usr/bin/env python3
"""Silence test: every patch under selftest/refactors/ is a behaviour-preserving refactoring written by a
sub-agent that never saw /verif (renames, loop-form changes, flipped branches, extracted/inlined helpers,
re-spelled comparisons). Applied to a scratch copy of /repo/include, ALL twenty checks must stay at exit 0
(no VIOLATION, no analysis-broken)."""
import os, sys, glob, subprocess, re
from concurrent.futures import ThreadPoolExecutor
HERE = os.path.dirname(os.path.abspath(__file__))
def one(p):
    r = subprocess.run([os.path.join(HERE, "try_patch.py"), p], stdout=subprocess.PIPE, stderr=subprocess.STDOUT, text=True)
    noisy = re.findall(r"^(C\d+) (CAUGHT|BROKEN)(.*)$", r.stdout, re.M)
    if "PATCH DOES NOT APPLY" in r.stdout:
        noisy = [("STALE", "patch no longer applies to /repo", "")]
    return os.path.basename(p), noisy, r.stdout
pat = sys.argv[1] if len(sys.argv) > 1 else ""
bad = 0
with ThreadPoolExecutor(3) as ex:
    for name, noisy, out in ex.map(one, sorted(p for p in glob.glob(os.path.join(HERE, "refactors", "*.diff")) if pat in p and ".before-" not in p)):
        print("%-7s %-22s %s" % ("NOISY" if noisy else "quiet", name, "; ".join("%s %s%s" % n for n in noisy)))
        if noisy:
            bad += 1
print("%d refactorings raised an alarm" % bad); sys.exit(1 if bad else 0)
