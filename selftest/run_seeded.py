#!/usr/bin/env python3
"""Regression over /verif/seeded: every stored change must still be reported by the property check it was
seeded for (or one of the checks recorded in meta.json). Applies each patch to a scratch copy only."""
import json, os, sys, glob, subprocess, re
from concurrent.futures import ThreadPoolExecutor
HERE = os.path.dirname(os.path.abspath(__file__)); V = os.path.dirname(HERE)
def one(d):
    m = json.load(open(os.path.join(d, "meta.json")))
    props = sorted(set([m["property"]] + m.get("caught_by", [])))
    r = subprocess.run([os.path.join(HERE, "try_patch.py"), os.path.join(d, "patch.diff")] + props, stdout=subprocess.PIPE, stderr=subprocess.STDOUT, text=True)
    caught = re.findall(r"^(C\d+) CAUGHT (.*)$", r.stdout, re.M)
    if "--update" in sys.argv and caught:
        # refresh the recorded verdict (after a strengthening): which checks / rules report the change today
        m["verdict"] = "caught"
        m["caught_by"] = sorted({c[0] for c in caught})
        m["caught_by_rules"] = sorted({x for c in caught for x in c[1].split()})
        json.dump(m, open(os.path.join(d, "meta.json"), "w"), indent=1)
    return os.path.basename(d), caught, r.stdout
bad = lim = 0
with ThreadPoolExecutor(4) as ex:
    for name, caught, out in ex.map(one, sorted(glob.glob(os.path.join(V, "seeded", "*")))):
        limit = json.load(open(os.path.join(V, "seeded", name, "meta.json"))).get("not_decided_because")
        print("%-8s %-45s %s" % ("CAUGHT" if caught else ("LIMIT" if limit else "MISSED"), name, "; ".join("%s:%s" % c for c in caught)))
        if not caught and limit:
            lim += 1        # a documented limit of static analysis (DESIGN.md): listed, not counted as a regression
        elif not caught:
            bad += 1; print(out[-800:])
print("%d seeded changes not reported (%d more are documented limits)" % (bad, lim)); sys.exit(1 if bad else 0)
