#!/usr/bin/env python3
"""Re-express stored patches (selftest/refactors/*.diff, seeded/*/patch.diff) on the current /repo HEAD after a
`fix:` commit changed lines they touch.  For every patch that no longer applies strictly (git apply --check):
a scratch worktree of /repo at BASE (a commit at which the patch is known to apply) gets the patch as a commit, the
commit is cherry-picked onto HEAD (3-way merge); on success the new diff replaces the stored one (the old one is kept
as *.before-<head>.diff); conflicts are listed for manual resolution.  usage: rebase_patches.py BASE [--write]"""
import os, sys, glob, subprocess, tempfile, shutil
V = os.path.dirname(os.path.dirname(os.path.abspath(__file__)))
base = sys.argv[1]
write = "--write" in sys.argv
def sh(c, cwd=None):
    r = subprocess.run(c, shell=True, cwd=cwd, stdout=subprocess.PIPE, stderr=subprocess.STDOUT, text=True)
    return r.returncode, r.stdout
head = sh("git -C /repo rev-parse --short HEAD")[1].strip()
patches = sorted(glob.glob(os.path.join(V, "selftest", "refactors", "*.diff"))) + sorted(glob.glob(os.path.join(V, "seeded", "*", "patch.diff")))
patches = [p for p in patches if ".before-" not in p]
stale = [p for p in patches if sh("git -C /repo apply --check %s" % p)[0] != 0]
print("%d patches, %d do not apply strictly to %s" % (len(patches), len(stale), head))
for p in stale:
    wt = tempfile.mkdtemp(prefix="frg-rb-"); os.rmdir(wt)
    try:
        rc, out = sh("git -C /repo worktree add -q --detach %s %s" % (wt, base)); assert rc == 0, out
        rc, out = sh("git apply %s" % p, cwd=wt)
        if rc != 0:
            print("NOBASE   %s does not apply at %s either: %s" % (p, base, out.strip()[:120])); continue
        sh("git -c user.name=x -c user.email=x@x commit -qam patch", cwd=wt)
        pc = sh("git rev-parse HEAD", cwd=wt)[1].strip()
        sh("git checkout -q --detach %s" % head, cwd=wt)
        rc, out = sh("git -c user.name=x -c user.email=x@x cherry-pick %s" % pc, cwd=wt)
        if rc != 0:
            print("CONFLICT %s\n%s" % (p, sh("git diff --name-only --diff-filter=U", cwd=wt)[1]))
            continue
        rc, new = sh("git diff %s HEAD" % head, cwd=wt)
        print("REBASED  %s" % p)
        if write:
            shutil.copy(p, p[:-5] + ".before-%s.diff" % head)
            open(p, "w").write(new)
    finally:
        sh("git -C /repo worktree remove --force %s" % wt); shutil.rmtree(wt, ignore_errors=True)
sh("git -C /repo worktree prune")
